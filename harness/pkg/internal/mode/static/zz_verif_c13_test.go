//go:build verif

package static

// C13 — upstreams contain exactly the ready endpoints of the referenced Service port.
//
// Two kinds of cases, both driving REAL code:
//
//   resolve (NGINX OSS, one shot): generated EndpointSlices live in a controller-runtime fake client that carries
//     the real field index (index.ServiceNameIndexFunc); a hand-built graph references Service ports from an
//     HTTPRoute rule / a TLSRoute; the real dataplane.BuildConfiguration (real resolver.ServiceResolverImpl, real
//     getAllowedAddressType from the NginxProxy setting) and the real config generator produce the files; the
//     upstream blocks are read back from http.conf / stream.conf.
//
//   plus (NGINX Plus, histories): the real eventHandlerImpl.HandleEventBatch (change type scripted through the
//     counterfeiter fake of state.ChangeProcessor: ClusterStateChange or EndpointsOnlyChange), real
//     BuildConfiguration, real generator (plus=true), real runtime.ManagerImpl (Reload / GetUpstreams /
//     UpdateHTTPServers / UpdateStreamServers), real nginx-plus-go-client over an in-memory HTTP transport that
//     talks to a STATEFUL fake NGINX Plus: it loads the upstream blocks of the generated files on reload (servers
//     of an upstream with a `state` file survive reloads), and serves /N/{http,stream}/upstreams[...]/servers.
//
// Environment fakes (trusted): fake API server (client/fake), the fake NGINX Plus, file manager that keeps the
// files in memory, process handler/verifier that make a HUP an immediate successful reload.

import (
	"bytes"
	"context"
	"encoding/json"
	"fmt"
	"io"
	"net/http"
	"regexp"
	"sort"
	"strconv"
	"strings"
	"testing"
	"time"

	"github.com/go-logr/logr"
	ngxclient "github.com/nginxinc/nginx-plus-go-client/client"
	"go.uber.org/zap"
	apiv1 "k8s.io/api/core/v1"
	discoveryV1 "k8s.io/api/discovery/v1"
	metav1 "k8s.io/apimachinery/pkg/apis/meta/v1"
	"k8s.io/apimachinery/pkg/types"
	"k8s.io/apimachinery/pkg/util/intstr"
	"k8s.io/client-go/tools/record"
	"sigs.k8s.io/controller-runtime/pkg/client"
	"sigs.k8s.io/controller-runtime/pkg/client/fake"
	gatewayv1 "sigs.k8s.io/gateway-api/apis/v1"
	"sigs.k8s.io/gateway-api/apis/v1alpha2"

	ngfAPI "github.com/nginx/nginx-gateway-fabric/apis/v1alpha1"
	"github.com/nginx/nginx-gateway-fabric/internal/framework/controller/index"
	"github.com/nginx/nginx-gateway-fabric/internal/framework/events"
	"github.com/nginx/nginx-gateway-fabric/internal/framework/status/statusfakes"
	ngfConfig "github.com/nginx/nginx-gateway-fabric/internal/mode/static/config"
	"github.com/nginx/nginx-gateway-fabric/internal/mode/static/licensing/licensingfakes"
	"github.com/nginx/nginx-gateway-fabric/internal/mode/static/metrics/collectors"
	ngxConfigC13 "github.com/nginx/nginx-gateway-fabric/internal/mode/static/nginx/config"
	"github.com/nginx/nginx-gateway-fabric/internal/mode/static/nginx/file"
	"github.com/nginx/nginx-gateway-fabric/internal/mode/static/nginx/runtime"
	"github.com/nginx/nginx-gateway-fabric/internal/mode/static/state"
	"github.com/nginx/nginx-gateway-fabric/internal/mode/static/state/dataplane"
	"github.com/nginx/nginx-gateway-fabric/internal/mode/static/state/graph"
	"github.com/nginx/nginx-gateway-fabric/internal/mode/static/state/resolver"
	"github.com/nginx/nginx-gateway-fabric/internal/mode/static/state/statefakes"
	vu "github.com/nginx/nginx-gateway-fabric/internal/verifutil"
)

// ---------------------------------------------------------------- inputs

type c13Port struct {
	Name *string `json:"name"`
	Port *int32  `json:"port"`
}

type c13Endp struct {
	Ready       *bool    `json:"ready"`
	Serving     *bool    `json:"serving,omitempty"`
	Terminating *bool    `json:"terminating,omitempty"`
	Addrs       []string `json:"addresses"`
}

type c13Slice struct {
	Name     string    `json:"name"`
	Ns       string    `json:"namespace"`
	Label    *string   `json:"serviceNameLabel"`
	AddrType string    `json:"addressType"`
	Ports    []c13Port `json:"ports"`
	Eps      []c13Endp `json:"endpoints"`
}

type c13Svc struct {
	Ns        string `json:"namespace"`
	Name      string `json:"name"`
	PortName  string `json:"portName"`
	Port      int32  `json:"port"`
	TargetInt *int32 `json:"targetPortInt,omitempty"`
	TargetStr string `json:"targetPortStr,omitempty"`
	Stream    bool   `json:"tlsRoute"`
}

type c13NP struct {
	Valid  bool    `json:"valid"`
	Family *string `json:"ipFamily"`
}

type c13World struct {
	NP     *c13NP     `json:"nginxProxy"`
	Slices []c13Slice `json:"slices"`
	Svcs   []c13Svc   `json:"services"`
}

// what was observed for one referenced Service port
type c13Obs struct {
	Upstream  string              `json:"upstream"`
	HasErr    bool                `json:"resolveError"`
	Endpoints []resolver.Endpoint `json:"endpoints"`
	Block     *[]string           `json:"serversInGeneratedFile"` // nil: no upstream block of that name
}

// ---------------------------------------------------------------- Coq printers

func c13OptStr(s *string) string {
	if s == nil {
		return "None"
	}
	return vu.Some(vu.Str(*s))
}

func c13OptBool(b *bool) string {
	if b == nil {
		return "None"
	}
	return vu.Some(vu.Bool(*b))
}

func c13AddrType(s string) string {
	switch s {
	case "IPv4":
		return "ATv4"
	case "IPv6":
		return "ATv6"
	case "FQDN":
		return "ATfqdn"
	}
	return "ATother"
}

func c13WorldTerm(w c13World) string {
	np := "NoNP"
	if w.NP != nil {
		fam := "None"
		if w.NP.Family != nil {
			switch *w.NP.Family {
			case "dual":
				fam = "(Some FDual)"
			case "ipv4":
				fam = "(Some FIPv4)"
			case "ipv6":
				fam = "(Some FIPv6)"
			default:
				fam = "(Some FOther)"
			}
		}
		np = vu.App("NP", vu.Bool(w.NP.Valid), fam)
	}
	var sl []string
	for _, s := range w.Slices {
		var ps, es []string
		for _, p := range s.Ports {
			port := "None"
			if p.Port != nil {
				port = vu.Some(vu.Z(int64(*p.Port)))
			}
			ps = append(ps, vu.App("EPort", c13OptStr(p.Name), port))
		}
		for _, e := range s.Eps {
			es = append(es, vu.App("Endp", c13OptBool(e.Ready), vu.StrList(e.Addrs)))
		}
		sl = append(sl, vu.App("Slice", vu.Str(s.Name), vu.Str(s.Ns), c13OptStr(s.Label), c13AddrType(s.AddrType),
			vu.List(ps), vu.List(es)))
	}
	var sv []string
	for _, s := range w.Svcs {
		tgt := vu.App("TInt", vu.Z(0))
		if s.TargetInt != nil {
			tgt = vu.App("TInt", vu.Z(int64(*s.TargetInt)))
		} else if s.TargetStr != "" {
			tgt = vu.App("TStr", vu.Str(s.TargetStr))
		}
		sv = append(sv, vu.App("Svc", vu.Str(s.Ns), vu.Str(s.Name),
			vu.App("SPort", vu.Str(s.PortName), vu.Z(int64(s.Port)), tgt), vu.Bool(s.Stream)))
	}
	return vu.App("World", np, vu.List(sl), vu.List(sv))
}

func c13ObsTerm(obs []c13Obs) string {
	var items []string
	for _, o := range obs {
		var eps []string
		for _, e := range o.Endpoints {
			eps = append(eps, vu.App("Ep", vu.Str(e.Address), vu.Z(int64(e.Port)), vu.Bool(e.IPv6)))
		}
		blk := "None"
		if o.Block != nil {
			blk = vu.Some(vu.StrList(*o.Block))
		}
		items = append(items, vu.App("ObsUp", vu.Str(o.Upstream), vu.Bool(o.HasErr), vu.List(eps), blk))
	}
	return vu.List(items)
}

func c13MapTerm(m map[string][]string) string {
	keys := make([]string, 0, len(m))
	for k := range m {
		keys = append(keys, k)
	}
	sort.Strings(keys)
	var items []string
	for _, k := range keys {
		items = append(items, vu.Pair(vu.Str(k), vu.StrList(m[k])))
	}
	return vu.List(items)
}

// ---------------------------------------------------------------- the fake cluster and the hand-built graph

func c13Client(w c13World) client.Client {
	var objs []client.Object
	for _, s := range w.Slices {
		es := &discoveryV1.EndpointSlice{
			ObjectMeta:  metav1.ObjectMeta{Name: s.Name, Namespace: s.Ns},
			AddressType: discoveryV1.AddressType(s.AddrType),
		}
		if s.Label != nil {
			es.Labels = map[string]string{index.KubernetesServiceNameLabel: *s.Label}
		}
		for _, p := range s.Ports {
			es.Ports = append(es.Ports, discoveryV1.EndpointPort{Name: p.Name, Port: p.Port})
		}
		for _, e := range s.Eps {
			es.Endpoints = append(es.Endpoints, discoveryV1.Endpoint{
				Addresses:  append([]string(nil), e.Addrs...),
				Conditions: discoveryV1.EndpointConditions{Ready: e.Ready, Serving: e.Serving, Terminating: e.Terminating},
			})
		}
		objs = append(objs, es)
	}
	return fake.NewClientBuilder().WithScheme(scheme).
		WithIndex(&discoveryV1.EndpointSlice{}, index.KubernetesServiceNameIndexField, index.ServiceNameIndexFunc).
		WithObjects(objs...).Build()
}

func c13ServicePort(s c13Svc) apiv1.ServicePort {
	sp := apiv1.ServicePort{Name: s.PortName, Port: s.Port}
	if s.TargetInt != nil {
		sp.TargetPort = intstr.FromInt32(*s.TargetInt)
	} else if s.TargetStr != "" {
		sp.TargetPort = intstr.FromString(s.TargetStr)
	}
	return sp
}

func c13UpstreamName(s c13Svc) string { return fmt.Sprintf("%s_%s_%d", s.Ns, s.Name, s.Port) }

func c13Graph(w c13World, plus bool) *graph.Graph {
	httpL := &graph.Listener{
		Name:   "http",
		Source: gatewayv1.Listener{Name: "http", Port: 80, Protocol: gatewayv1.HTTPProtocolType},
		Valid:  true, Attachable: true,
		Routes:   map[graph.RouteKey]*graph.L7Route{},
		L4Routes: map[graph.L4RouteKey]*graph.L4Route{},
	}
	tlsL := &graph.Listener{
		Name:   "tls",
		Source: gatewayv1.Listener{Name: "tls", Port: 443, Protocol: gatewayv1.TLSProtocolType},
		Valid:  true, Attachable: true,
		Routes:   map[graph.RouteKey]*graph.L7Route{},
		L4Routes: map[graph.L4RouteKey]*graph.L4Route{},
	}
	var rules []graph.RouteRule
	nStream := 0
	for _, s := range w.Svcs {
		br := graph.BackendRef{
			SvcNsName:   types.NamespacedName{Namespace: s.Ns, Name: s.Name},
			ServicePort: c13ServicePort(s),
			Weight:      1,
			Valid:       true,
		}
		if s.Stream {
			nStream++
			name := "tr" + strconv.Itoa(nStream)
			host := fmt.Sprintf("t%d.example.com", nStream)
			src := &v1alpha2.TLSRoute{ObjectMeta: metav1.ObjectMeta{Namespace: "default", Name: name}}
			tlsL.L4Routes[graph.L4RouteKey{NamespacedName: types.NamespacedName{Namespace: "default", Name: name}}] = &graph.L4Route{
				Source: src, Valid: true, Attachable: true,
				Spec: graph.L4RouteSpec{Hostnames: []gatewayv1.Hostname{gatewayv1.Hostname(host)}, BackendRef: br},
				ParentRefs: []graph.ParentRef{{
					Idx:        0,
					Gateway:    types.NamespacedName{Namespace: "default", Name: "gw"},
					Attachment: &graph.ParentRefAttachmentStatus{Attached: true, AcceptedHostnames: map[string][]string{"tls": {host}}},
				}},
			}
			continue
		}
		rules = append(rules, graph.RouteRule{
			ValidMatches: true,
			Filters:      graph.RouteRuleFilters{Valid: true},
			Matches: []gatewayv1.HTTPRouteMatch{{Path: &gatewayv1.HTTPPathMatch{
				Type:  c13Ptr(gatewayv1.PathMatchPathPrefix),
				Value: c13Ptr("/" + c13UpstreamName(s)),
			}}},
			BackendRefs: []graph.BackendRef{br},
		})
	}
	if len(rules) > 0 {
		src := &gatewayv1.HTTPRoute{ObjectMeta: metav1.ObjectMeta{Namespace: "default", Name: "hr"}}
		httpL.Routes[graph.CreateRouteKey(src)] = &graph.L7Route{
			Source: src, RouteType: graph.RouteTypeHTTP, Valid: true, Attachable: true,
			Spec: graph.L7RouteSpec{Hostnames: []gatewayv1.Hostname{"app.example.com"}, Rules: rules},
			ParentRefs: []graph.ParentRef{{
				Idx:        0,
				Gateway:    types.NamespacedName{Namespace: "default", Name: "gw"},
				Attachment: &graph.ParentRefAttachmentStatus{Attached: true, AcceptedHostnames: map[string][]string{"http": {"app.example.com"}}},
			}},
		}
	}
	g := &graph.Graph{
		GatewayClass: &graph.GatewayClass{Source: &gatewayv1.GatewayClass{ObjectMeta: metav1.ObjectMeta{Name: "nginx"}}, Valid: true},
		Gateway: &graph.Gateway{
			Source:    &gatewayv1.Gateway{ObjectMeta: metav1.ObjectMeta{Namespace: "default", Name: "gw"}},
			Listeners: []*graph.Listener{httpL, tlsL},
			Valid:     true,
		},
	}
	if w.NP != nil {
		np := &ngfAPI.NginxProxy{ObjectMeta: metav1.ObjectMeta{Name: "np"}}
		if w.NP.Family != nil {
			np.Spec.IPFamily = c13Ptr(ngfAPI.IPFamilyType(*w.NP.Family))
		}
		g.NginxProxy = &graph.NginxProxy{Source: np, Valid: w.NP.Valid}
	}
	if plus {
		g.PlusSecrets = map[types.NamespacedName][]graph.PlusSecretFile{
			{Namespace: "nginx-gateway", Name: "license"}: {{FieldName: "license.jwt", Content: []byte("jwt"), Type: graph.PlusReportJWTToken}},
		}
	}
	return g
}

func c13Ptr[T any](v T) *T { return &v }

// ---------------------------------------------------------------- reading upstream blocks back from generated files

var (
	c13UpstreamRe = regexp.MustCompile(`(?m)^upstream\s+(\S+)\s*\{([^}]*)\}`)
	c13ServerRe   = regexp.MustCompile(`(?m)^\s*server\s+(\S+?);`)
	c13StateRe    = regexp.MustCompile(`(?m)^\s*state\s+(\S+?);`)
)

type c13Block struct {
	servers []string
	state   string
}

func c13ParseUpstreams(conf []byte) map[string]c13Block {
	out := map[string]c13Block{}
	for _, m := range c13UpstreamRe.FindAllSubmatch(conf, -1) {
		b := c13Block{servers: []string{}}
		for _, s := range c13ServerRe.FindAllSubmatch(m[2], -1) {
			b.servers = append(b.servers, string(s[1]))
		}
		if st := c13StateRe.FindSubmatch(m[2]); st != nil {
			b.state = string(st[1])
		}
		out[string(m[1])] = b
	}
	return out
}

func c13FileContent(files []file.File, path string) []byte {
	var out []byte
	for _, f := range files {
		if f.Path == path {
			out = append(out, f.Content...)
		}
	}
	return out
}

const (
	c13HTTPConf   = "/etc/nginx/conf.d/http.conf"
	c13StreamConf = "/etc/nginx/stream-conf.d/stream.conf"
)

func c13Observe(w c13World, cfg dataplane.Configuration, httpBlocks, streamBlocks map[string][]string) []c13Obs {
	var obs []c13Obs
	for _, s := range w.Svcs {
		name := c13UpstreamName(s)
		o := c13Obs{Upstream: name, HasErr: true}
		ups, blocks := cfg.Upstreams, httpBlocks
		if s.Stream {
			ups, blocks = cfg.StreamUpstreams, streamBlocks
		}
		found := false
		for _, u := range ups {
			if u.Name == name {
				if found {
					panic("C13 harness: duplicate upstream " + name)
				}
				found = true
				o.HasErr = u.ErrorMsg != ""
				o.Endpoints = u.Endpoints
			}
		}
		if !found {
			panic("C13 harness: no upstream built for " + name)
		}
		if b, ok := blocks[name]; ok {
			bb := append([]string{}, b...)
			o.Block = &bb
		}
		obs = append(obs, o)
	}
	return obs
}

// ---------------------------------------------------------------- the stateful fake NGINX Plus

type c13Server struct {
	ID     int    `json:"id"`
	Server string `json:"server"`
}

type c13Ups struct {
	state   string
	servers []c13Server
}

type c13Nginx struct {
	files      []file.File         // what the file manager holds
	stateFiles map[string][]string // state file path -> servers (survive reloads)
	http       map[string]*c13Ups  // upstreams of the running configuration
	stream     map[string]*c13Ups
	nextID     int
	reloads    int
	apiWrites  int
	apiErr     []string
}

func c13NewNginx() *c13Nginx {
	return &c13Nginx{stateFiles: map[string][]string{}, http: map[string]*c13Ups{}, stream: map[string]*c13Ups{}}
}

func (n *c13Nginx) ReplaceFiles(files []file.File) error {
	n.files = append([]file.File(nil), files...)
	return nil
}

func (n *c13Nginx) load(conf []byte) map[string]*c13Ups {
	out := map[string]*c13Ups{}
	for name, b := range c13ParseUpstreams(conf) {
		u := &c13Ups{state: b.state}
		src := b.servers
		if b.state != "" {
			src = n.stateFiles[b.state]
		}
		for _, s := range src {
			n.nextID++
			u.servers = append(u.servers, c13Server{ID: n.nextID, Server: s})
		}
		out[name] = u
	}
	return out
}

func (n *c13Nginx) reload() {
	n.reloads++
	n.http = n.load(c13FileContent(n.files, c13HTTPConf))
	n.stream = n.load(c13FileContent(n.files, c13StreamConf))
}

func (n *c13Nginx) persist(u *c13Ups) {
	if u.state == "" {
		return
	}
	var l []string
	for _, s := range u.servers {
		l = append(l, s.Server)
	}
	n.stateFiles[u.state] = l
}

func (n *c13Nginx) view(m map[string]*c13Ups) map[string][]string {
	out := map[string][]string{}
	for k, u := range m {
		l := []string{}
		for _, s := range u.servers {
			l = append(l, s.Server)
		}
		out[k] = l
	}
	return out
}

func c13JSON(code int, v any) *http.Response {
	b, _ := json.Marshal(v)
	return &http.Response{StatusCode: code, Status: http.StatusText(code), Body: io.NopCloser(bytes.NewReader(b)),
		Header: http.Header{"Content-Type": []string{"application/json"}}}
}

func c13APIError(code int, kind string) *http.Response {
	return c13JSON(code, map[string]any{"error": map[string]any{"status": code, "text": kind, "code": kind}, "request_id": "x", "href": "x"})
}

// RoundTrip implements the part of the NGINX Plus REST API that nginx-plus-go-client uses for upstreams.
func (n *c13Nginx) RoundTrip(req *http.Request) (*http.Response, error) {
	parts := strings.Split(strings.Trim(req.URL.Path, "/"), "/")
	if len(parts) > 0 && parts[0] == "api" {
		parts = parts[1:]
	}
	// parts: [version, "http"|"stream", "upstreams", name?, "servers"?, id?]
	if len(parts) < 3 || parts[2] != "upstreams" || (parts[1] != "http" && parts[1] != "stream") {
		return c13APIError(404, "PathNotFound"), nil
	}
	m := n.http
	if parts[1] == "stream" {
		m = n.stream
	}
	if len(parts) == 3 {
		if req.Method != http.MethodGet {
			return c13APIError(405, "MethodNotAllowed"), nil
		}
		out := map[string]any{}
		for name, u := range m {
			peers := []c13Server{}
			peers = append(peers, u.servers...)
			out[name] = map[string]any{"peers": peers, "zone": name}
		}
		return c13JSON(200, out), nil
	}
	u, ok := m[parts[3]]
	if !ok {
		n.apiErr = append(n.apiErr, req.Method+" "+req.URL.Path+": UpstreamNotFound")
		return c13APIError(404, "UpstreamNotFound"), nil
	}
	if len(parts) < 5 || parts[4] != "servers" {
		return c13APIError(404, "PathNotFound"), nil
	}
	switch {
	case req.Method == http.MethodGet && len(parts) == 5:
		l := []c13Server{}
		l = append(l, u.servers...)
		return c13JSON(200, l), nil
	case req.Method == http.MethodPost && len(parts) == 5:
		var in c13Server
		body, _ := io.ReadAll(req.Body)
		if err := json.Unmarshal(body, &in); err != nil || in.Server == "" {
			return c13APIError(400, "UpstreamConfFormatError"), nil
		}
		for _, s := range u.servers {
			if s.Server == in.Server {
				n.apiErr = append(n.apiErr, "POST duplicate "+in.Server)
				return c13APIError(409, "UpstreamServerExists"), nil
			}
		}
		n.nextID++
		n.apiWrites++
		u.servers = append(u.servers, c13Server{ID: n.nextID, Server: in.Server})
		n.persist(u)
		return c13JSON(201, u.servers[len(u.servers)-1]), nil
	case req.Method == http.MethodDelete && len(parts) == 6:
		id, _ := strconv.Atoi(parts[5])
		for i, s := range u.servers {
			if s.ID == id {
				u.servers = append(append([]c13Server{}, u.servers[:i]...), u.servers[i+1:]...)
				n.apiWrites++
				n.persist(u)
				return c13JSON(200, u.servers), nil
			}
		}
		return c13APIError(404, "UpstreamServerNotFound"), nil
	case req.Method == http.MethodPatch && len(parts) == 6:
		return c13JSON(200, map[string]any{}), nil
	}
	return c13APIError(405, "MethodNotAllowed"), nil
}

// process handler / verifier of the real runtime.ManagerImpl: a HUP is an immediate, successful reload
type c13Proc struct{ n *c13Nginx }

func (p c13Proc) FindMainProcess(context.Context, time.Duration) (int, error) { return 1, nil }
func (p c13Proc) ReadFile(string) ([]byte, error)                             { return []byte("2 3"), nil }
func (p c13Proc) Kill(int) error                                              { p.n.reload(); return nil }

type c13Verifier struct{}

func (c13Verifier) GetConfigVersion() (int, error) { return 0, nil }
func (c13Verifier) WaitForCorrectVersion(context.Context, int, string, []byte, runtime.ReadFileFunc) error {
	return nil
}
func (c13Verifier) EnsureConfigVersion(context.Context, int) error { return nil }

type c13Metrics struct{}

func (c13Metrics) IncReloadCount()                     {}
func (c13Metrics) IncReloadErrors()                    {}
func (c13Metrics) ObserveLastReloadTime(time.Duration) {}

// a resolver whose client can be swapped between batches (the "cluster" changes)
type c13Resolver struct{ cur *resolver.ServiceResolverImpl }

func (r *c13Resolver) Resolve(ctx context.Context, n types.NamespacedName, p apiv1.ServicePort,
	a []discoveryV1.AddressType,
) ([]resolver.Endpoint, error) {
	return r.cur.Resolve(ctx, n, p, a)
}

type c13PlusRig struct {
	h    *eventHandlerImpl
	ng   *c13Nginx
	proc *statefakes.FakeChangeProcessor
	res  *c13Resolver
}

func c13NewPlusRig() *c13PlusRig {
	ng := c13NewNginx()
	api, err := ngxclient.NewNginxClient("http://nginx-plus.invalid/api", ngxclient.WithHTTPClient(&http.Client{Transport: ng}))
	if err != nil {
		panic(err)
	}
	mgr := runtime.NewManagerImpl(api, c13Metrics{}, logr.Discard(), c13Proc{ng}, c13Verifier{})
	k8s := fake.NewClientBuilder().WithScheme(scheme).Build()
	_ = k8s.Create(context.Background(), &apiv1.Service{ObjectMeta: metav1.ObjectMeta{Name: "nginx-gateway", Namespace: "nginx-gateway"}})
	rig := &c13PlusRig{ng: ng, proc: &statefakes.FakeChangeProcessor{}, res: &c13Resolver{}}
	rig.h = newEventHandlerImpl(eventHandlerConfig{
		nginxFileMgr:                  ng,
		metricsCollector:              collectors.NewControllerNoopCollector(),
		nginxRuntimeMgr:               mgr,
		statusUpdater:                 &statusfakes.FakeGroupUpdater{},
		processor:                     rig.proc,
		serviceResolver:               rig.res,
		generator:                     ngxConfigC13.NewGeneratorImpl(true, &ngfConfig.UsageReportConfig{}, logr.Discard()),
		k8sClient:                     k8s,
		k8sReader:                     k8s,
		logLevelSetter:                newZapLogLevelSetter(zap.NewAtomicLevel()),
		eventRecorder:                 record.NewFakeRecorder(10000),
		deployCtxCollector:            &licensingfakes.FakeCollector{},
		nginxConfiguredOnStartChecker: newNginxConfiguredOnStartChecker(),
		gatewayPodConfig: ngfConfig.GatewayPodConfig{
			PodIP: "10.0.0.1", ServiceName: "nginx-gateway", Namespace: "nginx-gateway", Name: "ngf-pod", UID: "uid",
		},
		controlConfigNSName:      types.NamespacedName{Namespace: "nginx-gateway", Name: "nginx-gateway-config"},
		gatewayCtlrName:          "gateway.nginx.org/nginx-gateway-controller",
		updateGatewayClassStatus: false,
		plus:                     true,
	})
	return rig
}

// step delivers one batch; reload=true is a ClusterStateChange, false an EndpointsOnlyChange.
func (r *c13PlusRig) step(w c13World, reload bool) (obs []c13Obs, httpView, streamView map[string][]string, herr string) {
	r.res.cur = resolver.NewServiceResolverImpl(c13Client(w))
	ct := state.EndpointsOnlyChange
	if reload {
		ct = state.ClusterStateChange
	}
	r.proc.ProcessReturns(ct, c13Graph(w, true))
	r.h.HandleEventBatch(context.Background(), logr.Discard(),
		events.EventBatch{&events.UpsertEvent{Resource: &discoveryV1.EndpointSlice{ObjectMeta: metav1.ObjectMeta{Namespace: "x", Name: "x"}}}})
	if r.h.latestReloadResult.Error != nil {
		herr = r.h.latestReloadResult.Error.Error()
	}
	cfg := r.h.GetLatestConfiguration()
	httpView, streamView = r.ng.view(r.ng.http), r.ng.view(r.ng.stream)
	obs = c13Observe(w, *cfg, httpView, streamView)
	return obs, httpView, streamView, herr
}

// ---------------------------------------------------------------- generators

var (
	c13NsPool    = []string{"ns1", "ns2"}
	c13SvcPool   = []string{"svc-a", "svc-b", "svc-c"}
	c13PortNames = []string{"", "http", "web", "metrics"}
	c13PortNums  = []int32{80, 8080, 8443, 9090, 3000}
	c13SvcPorts  = []int32{80, 8080, 443}
)

func c13Pick[T any](r *vu.Rng, xs []T) T { return xs[r.Intn(len(xs))] }

func c13GenSvc(r *vu.Rng, allowStream bool) c13Svc {
	s := c13Svc{Ns: c13Pick(r, c13NsPool), Name: c13Pick(r, c13SvcPool), PortName: c13Pick(r, c13PortNames), Port: c13Pick(r, c13SvcPorts)}
	switch r.Intn(4) {
	case 0:
		s.TargetInt = c13Ptr(c13Pick(r, c13PortNums))
	case 1:
		s.TargetStr = "named-target"
	case 2:
		s.TargetInt = c13Ptr(int32(0))
	}
	if allowStream && r.Chance(1, 4) {
		s.Stream = true
	}
	return s
}

func c13GenSvcs(r *vu.Rng, n int, allowStream bool) []c13Svc {
	var out []c13Svc
	seen := map[string]bool{}
	for len(out) < n {
		s := c13GenSvc(r, allowStream)
		k := fmt.Sprint(s.Stream, c13UpstreamName(s))
		if seen[k] {
			continue
		}
		seen[k] = true
		out = append(out, s)
	}
	return out
}

func c13GenAddr(r *vu.Rng, at string, pool int) string {
	k := 1 + r.Intn(pool)
	switch at {
	case "IPv6":
		return fmt.Sprintf("fd00::%x", k)
	case "FQDN":
		return fmt.Sprintf("h%d.example.com", k)
	}
	return fmt.Sprintf("10.0.0.%d", k)
}

// c13GenPorts: wf=true gives what the EndpointSlice controller / API validation allow (unique names, a nil
// port only as the single entry); wf=false may break that (hostile stream).
func c13GenPorts(r *vu.Rng, svc *c13Svc, wf bool) []c13Port {
	var ps []c13Port
	switch {
	case r.Chance(1, 10):
		return nil
	case r.Chance(1, 8):
		return []c13Port{{Name: c13Ptr(c13Pick(r, c13PortNames)), Port: nil}}
	}
	n := 1 + r.Intn(3)
	names := append([]string(nil), c13PortNames...)
	r.Shuffle(len(names), func(i, j int) { names[i], names[j] = names[j], names[i] })
	if svc != nil && r.Chance(3, 4) {
		// make the referenced port name likely to be present
		for i, nm := range names {
			if nm == svc.PortName {
				k := r.Intn(n)
				names[i], names[k] = names[k], names[i]
			}
		}
	}
	for i := 0; i < n; i++ {
		ps = append(ps, c13Port{Name: c13Ptr(names[i]), Port: c13Ptr(c13Pick(r, c13PortNums))})
	}
	if !wf {
		for i := range ps {
			switch r.Intn(8) {
			case 0:
				ps[i].Port = nil
			case 1:
				ps[i].Name = nil
			case 2:
				ps[i].Name = c13Ptr(*ps[r.Intn(len(ps))].Name1())
			case 3:
				ps[i].Port = c13Ptr(int32(0))
			}
		}
	}
	return ps
}

func (p c13Port) Name1() *string {
	if p.Name == nil {
		return c13Ptr("")
	}
	return p.Name
}

func c13GenSlice(r *vu.Rng, idx int, svcs []c13Svc, wf bool, pool int) c13Slice {
	s := c13Slice{Name: "slice-" + strconv.Itoa(idx)}
	var target *c13Svc
	if len(svcs) > 0 && r.Chance(9, 10) {
		target = &svcs[r.Intn(len(svcs))]
		s.Ns, s.Label = target.Ns, c13Ptr(target.Name)
		switch r.Intn(14) {
		case 0:
			s.Ns = c13Pick(r, c13NsPool) // maybe another namespace
		case 1:
			s.Label = nil
		case 2:
			s.Label = c13Ptr("")
		case 3:
			s.Label = c13Ptr(c13Pick(r, c13SvcPool))
		}
	} else {
		s.Ns, s.Label = c13Pick(r, c13NsPool), c13Ptr(c13Pick(r, c13SvcPool))
	}
	switch r.Intn(12) {
	case 0:
		s.AddrType = "FQDN"
	case 1, 2, 3, 4:
		s.AddrType = "IPv6"
	default:
		s.AddrType = "IPv4"
	}
	if !wf && r.Chance(1, 12) {
		s.AddrType = "Other"
	}
	s.Ports = c13GenPorts(r, target, wf)
	ne := r.Intn(4)
	if r.Chance(1, 6) {
		ne = 0
	}
	for i := 0; i < ne; i++ {
		var e c13Endp
		switch r.Intn(8) {
		case 0:
			e.Ready = nil
		case 1:
			e.Ready, e.Serving, e.Terminating = c13Ptr(false), c13Ptr(true), c13Ptr(true) // terminating
		case 2:
			e.Ready = c13Ptr(false)
		default:
			e.Ready = c13Ptr(true)
		}
		na := 1 + r.Intn(2)
		if r.Chance(1, 10) {
			na = 0
		}
		for j := 0; j < na; j++ {
			e.Addrs = append(e.Addrs, c13GenAddr(r, s.AddrType, pool))
		}
		s.Eps = append(s.Eps, e)
	}
	return s
}

func c13GenNP(r *vu.Rng, hostile bool) *c13NP {
	switch r.Intn(7) {
	case 0:
		return nil
	case 1:
		return &c13NP{Valid: true}
	case 2:
		return &c13NP{Valid: true, Family: c13Ptr("dual")}
	case 3:
		return &c13NP{Valid: true, Family: c13Ptr("ipv4")}
	case 4:
		return &c13NP{Valid: true, Family: c13Ptr("ipv6")}
	case 5:
		return &c13NP{Valid: false, Family: c13Ptr(c13Pick(r, []string{"ipv4", "ipv6"}))}
	}
	if hostile {
		return &c13NP{Valid: true, Family: c13Ptr("ipv5")}
	}
	return &c13NP{Valid: true, Family: c13Ptr("ipv4")}
}

func c13GenWorld(r *vu.Rng, size int, wf bool, allowStream bool) c13World {
	w := c13World{NP: c13GenNP(r, !wf)}
	w.Svcs = c13GenSvcs(r, 1+r.Intn(1+size/3), allowStream)
	ns := r.Intn(2 + size)
	pool := 2 + r.Intn(3)
	for i := 0; i < ns; i++ {
		w.Slices = append(w.Slices, c13GenSlice(r, i, w.Svcs, wf, pool))
	}
	return w
}

// c13Mutate changes only EndpointSlices (what an EndpointsOnlyChange carries).
func c13MutateSlices(r *vu.Rng, w c13World, ctr *int) c13World {
	out := c13World{NP: w.NP, Svcs: w.Svcs}
	out.Slices = append([]c13Slice(nil), w.Slices...)
	n := 1 + r.Intn(2)
	for k := 0; k < n; k++ {
		switch op := r.Intn(6); {
		case op == 0 || len(out.Slices) == 0: // new slice
			*ctr++
			out.Slices = append(out.Slices, c13GenSlice(r, 100+*ctr, w.Svcs, true, 4))
		case op == 1: // slice goes away
			i := r.Intn(len(out.Slices))
			out.Slices = append(append([]c13Slice(nil), out.Slices[:i]...), out.Slices[i+1:]...)
		case op == 2: // readiness flips
			i := r.Intn(len(out.Slices))
			s := out.Slices[i]
			s.Eps = append([]c13Endp(nil), s.Eps...)
			for j := range s.Eps {
				if r.Bool() {
					e := s.Eps[j]
					e.Ready = c13Ptr(e.Ready == nil || !*e.Ready)
					s.Eps[j] = e
				}
			}
			out.Slices[i] = s
		case op == 3: // all endpoints of a slice become unready (scale to zero / rollout)
			i := r.Intn(len(out.Slices))
			s := out.Slices[i]
			s.Eps = append([]c13Endp(nil), s.Eps...)
			for j := range s.Eps {
				e := s.Eps[j]
				e.Ready = c13Ptr(false)
				s.Eps[j] = e
			}
			out.Slices[i] = s
		default: // regenerate the contents of a slice, same identity
			i := r.Intn(len(out.Slices))
			idx, _ := strconv.Atoi(strings.TrimPrefix(out.Slices[i].Name, "slice-"))
			out.Slices[i] = c13GenSlice(r, idx, w.Svcs, true, 4)
		}
	}
	return out
}

// ---------------------------------------------------------------- the test

func c13RunOSS(w c13World) []c13Obs {
	res := resolver.NewServiceResolverImpl(c13Client(w))
	cfg := dataplane.BuildConfiguration(context.Background(), c13Graph(w, false), res, 1)
	files := ngxConfigC13.NewGeneratorImpl(false, &ngfConfig.UsageReportConfig{}, logr.Discard()).Generate(cfg)
	hb, sb := map[string][]string{}, map[string][]string{}
	for k, b := range c13ParseUpstreams(c13FileContent(files, c13HTTPConf)) {
		hb[k] = b.servers
	}
	for k, b := range c13ParseUpstreams(c13FileContent(files, c13StreamConf)) {
		sb[k] = b.servers
	}
	return c13Observe(w, cfg, hb, sb)
}

// c13Mix scrambles the seed: vu.NewRng(k) and vu.NewRng(k+n) are the same splitmix stream shifted by n draws, so
// neighbouring VERIF_SEED values would otherwise replay almost the same cases.
func c13Mix(z uint64) uint64 {
	z = (z ^ (z >> 30)) * 0xBF58476D1CE4E5B9
	z = (z ^ (z >> 27)) * 0x94D049BB133111EB
	z ^= z >> 31
	return z*0xD6E8FEB86659FD93 + 0x2545F4914F6CDD1D
}

func c13Total(obs []c13Obs) int {
	n := 0
	for _, o := range obs {
		n += len(o.Endpoints)
	}
	return n
}

func TestVerifC13(t *testing.T) {
	out := vu.Open("C13")
	rng := vu.NewRng(c13Mix(out.Seed ^ 0xC13))
	nRes := out.Count(900, 16000)
	nHostile := out.Count(250, 4000)
	nPlus := out.Count(350, 4000)

	emitOSS := func(kind string, w c13World) {
		obs := c13RunOSS(w)
		term := vu.App("CResolve", c13WorldTerm(w), c13ObsTerm(obs))
		human := map[string]any{"kind": kind, "world": w, "observed": obs}
		kb, _ := json.Marshal(human)
		multi := 0
		for _, s := range w.Slices {
			if s.Label != nil && len(s.Eps) > 0 {
				multi++
			}
		}
		out.Case(term, human, c13Total(obs) >= 2 && multi >= 2, string(kb))
		out.Tally("kind", kind)
		out.Tally("slices", strconv.Itoa(len(w.Slices)))
		out.Tally("services", strconv.Itoa(len(w.Svcs)))
		ne := c13Total(obs)
		switch {
		case ne == 0:
			out.Tally("resolved_endpoints", "0")
		case ne <= 3:
			out.Tally("resolved_endpoints", "1-3")
		default:
			out.Tally("resolved_endpoints", "4+")
		}
		fam := "none"
		if w.NP != nil {
			fam = "unset"
			if w.NP.Family != nil {
				fam = *w.NP.Family
			}
			if !w.NP.Valid {
				fam += "(invalid)"
			}
		}
		out.Tally("nginxproxy_family", fam)
	}

	// fixed corpus first: the shapes the property text names
	for _, w := range c13Corpus() {
		emitOSS("corpus", w)
	}
	for i := 0; i < nRes; i++ {
		r := rng.Fork()
		emitOSS("wellformed", c13GenWorld(r, 1+(i*9)/nRes, true, true))
	}
	for i := 0; i < nHostile; i++ {
		r := rng.Fork()
		emitOSS("hostile", c13GenWorld(r, 1+(i*7)/nHostile, false, true))
	}

	// NGINX Plus histories
	emitPlus := func(kind string, worlds []c13World, reloads []bool) {
		rig := c13NewPlusRig()
		var steps []string
		var human []map[string]any
		apiOnly, changed := 0, 0
		var prev map[string][]string
		for i, w := range worlds {
			writes0 := rig.ng.apiWrites
			obs, hv, sv, herr := rig.step(w, reloads[i])
			steps = append(steps, vu.App("PStep", vu.Bool(reloads[i]), c13WorldTerm(w), c13ObsTerm(obs), c13MapTerm(hv), c13MapTerm(sv), vu.Bool(herr != "")))
			human = append(human, map[string]any{"clusterStateChange": reloads[i], "world": w, "built": obs,
				"nginx_http_upstreams": hv, "nginx_stream_upstreams": sv, "handler_error": herr, "reloads_so_far": rig.ng.reloads})
			if !reloads[i] {
				apiOnly++
				if rig.ng.apiWrites > writes0 {
					changed++
				}
			}
			prev = hv
		}
		_ = prev
		term := vu.App("CPlus", vu.List(steps))
		kb, _ := json.Marshal(human)
		out.Case(term, map[string]any{"kind": kind, "steps": human, "api_errors": rig.ng.apiErr}, apiOnly >= 2 && changed >= 1, string(kb))
		out.Tally("kind", kind)
		out.Tally("plus_steps", strconv.Itoa(len(worlds)))
		out.Tally("plus_api_only_steps_that_wrote", strconv.Itoa(changed))
	}
	for _, h := range c13PlusCorpus() {
		emitPlus("plus-corpus", h.worlds, h.reloads)
	}
	for i := 0; i < nPlus; i++ {
		r := rng.Fork()
		n := 2 + (i*5)/nPlus + r.Intn(2)
		w := c13GenWorld(r, 2+r.Intn(5), true, true)
		worlds := []c13World{w}
		reloads := []bool{true}
		ctr := 0
		for k := 1; k < n; k++ {
			if r.Chance(1, 5) {
				// cluster state change: the set of referenced Service ports (and maybe the family) changes too
				nw := c13MutateSlices(r, w, &ctr)
				nw.Svcs = c13GenSvcs(r, 1+r.Intn(3), true)
				if r.Chance(1, 3) {
					nw.NP = c13GenNP(r, false)
				}
				w = nw
				reloads = append(reloads, true)
			} else {
				w = c13MutateSlices(r, w, &ctr)
				reloads = append(reloads, false)
			}
			worlds = append(worlds, w)
		}
		emitPlus("plus", worlds, reloads)
	}
	out.Close("C13.Check", "")
}

// ---------------------------------------------------------------- corpus

func c13Ready(addrs ...string) c13Endp { return c13Endp{Ready: c13Ptr(true), Addrs: addrs} }
func c13Unready(addrs ...string) c13Endp {
	return c13Endp{Ready: c13Ptr(false), Addrs: addrs}
}

func c13Corpus() []c13World {
	svc := c13Svc{Ns: "ns1", Name: "svc-a", PortName: "http", Port: 80}
	lbl := c13Ptr("svc-a")
	port := func(n string, p int32) c13Port { return c13Port{Name: c13Ptr(n), Port: c13Ptr(p)} }
	return []c13World{
		// no slice at all: 503
		{Svcs: []c13Svc{svc}},
		// two slices, overlapping addresses, one unready, one terminating, one nil-ready
		{Svcs: []c13Svc{svc}, Slices: []c13Slice{
			{Name: "s1", Ns: "ns1", Label: lbl, AddrType: "IPv4", Ports: []c13Port{port("http", 8080), port("metrics", 9090)},
				Eps: []c13Endp{c13Ready("10.0.0.1", "10.0.0.2"), c13Unready("10.0.0.3")}},
			{Name: "s2", Ns: "ns1", Label: lbl, AddrType: "IPv4", Ports: []c13Port{port("http", 8080)},
				Eps: []c13Endp{c13Ready("10.0.0.2"), {Ready: nil, Addrs: []string{"10.0.0.4"}},
					{Ready: c13Ptr(false), Serving: c13Ptr(true), Terminating: c13Ptr(true), Addrs: []string{"10.0.0.5"}}}},
		}},
		// same address, different published ports in two slices: two servers
		{Svcs: []c13Svc{svc}, Slices: []c13Slice{
			{Name: "s1", Ns: "ns1", Label: lbl, AddrType: "IPv4", Ports: []c13Port{port("http", 8080)}, Eps: []c13Endp{c13Ready("10.0.0.1")}},
			{Name: "s2", Ns: "ns1", Label: lbl, AddrType: "IPv4", Ports: []c13Port{port("http", 8081)}, Eps: []c13Endp{c13Ready("10.0.0.1")}},
		}},
		// IPv6 + IPv4 + FQDN slices under ipv4-only
		{NP: &c13NP{Valid: true, Family: c13Ptr("ipv4")}, Svcs: []c13Svc{svc}, Slices: []c13Slice{
			{Name: "s1", Ns: "ns1", Label: lbl, AddrType: "IPv6", Ports: []c13Port{port("http", 8080)}, Eps: []c13Endp{c13Ready("fd00::1")}},
			{Name: "s2", Ns: "ns1", Label: lbl, AddrType: "IPv4", Ports: []c13Port{port("http", 8080)}, Eps: []c13Endp{c13Ready("10.0.0.1")}},
			{Name: "s3", Ns: "ns1", Label: lbl, AddrType: "FQDN", Ports: []c13Port{port("http", 8080)}, Eps: []c13Endp{c13Ready("h1.example.com")}},
		}},
		// nil port: default port = targetPort int / service port
		{Svcs: []c13Svc{{Ns: "ns1", Name: "svc-a", PortName: "http", Port: 80, TargetInt: c13Ptr(int32(3000))}}, Slices: []c13Slice{
			{Name: "s1", Ns: "ns1", Label: lbl, AddrType: "IPv4", Ports: []c13Port{{Name: c13Ptr(""), Port: nil}}, Eps: []c13Endp{c13Ready("10.0.0.1")}},
		}},
		{Svcs: []c13Svc{{Ns: "ns1", Name: "svc-a", PortName: "http", Port: 80, TargetStr: "named"}}, Slices: []c13Slice{
			{Name: "s1", Ns: "ns1", Label: lbl, AddrType: "IPv4", Ports: []c13Port{{Name: c13Ptr("x"), Port: nil}}, Eps: []c13Endp{c13Ready("10.0.0.1")}},
		}},
		// port name does not match / no ports / other namespace / other service: nothing, 503
		{Svcs: []c13Svc{svc}, Slices: []c13Slice{
			{Name: "s1", Ns: "ns1", Label: lbl, AddrType: "IPv4", Ports: []c13Port{port("web", 8080)}, Eps: []c13Endp{c13Ready("10.0.0.1")}},
			{Name: "s2", Ns: "ns1", Label: lbl, AddrType: "IPv4", Eps: []c13Endp{c13Ready("10.0.0.2")}},
			{Name: "s3", Ns: "ns2", Label: lbl, AddrType: "IPv4", Ports: []c13Port{port("http", 8080)}, Eps: []c13Endp{c13Ready("10.0.0.3")}},
			{Name: "s4", Ns: "ns1", Label: c13Ptr("svc-b"), AddrType: "IPv4", Ports: []c13Port{port("http", 8080)}, Eps: []c13Endp{c13Ready("10.0.0.4")}},
		}},
		// all endpoints unready: 503 rather than old servers
		{Svcs: []c13Svc{svc}, Slices: []c13Slice{
			{Name: "s1", Ns: "ns1", Label: lbl, AddrType: "IPv4", Ports: []c13Port{port("http", 8080)}, Eps: []c13Endp{c13Unready("10.0.0.1")}},
		}},
		// TLSRoute backend with and without endpoints
		{Svcs: []c13Svc{{Ns: "ns1", Name: "svc-a", PortName: "http", Port: 80, Stream: true}, {Ns: "ns1", Name: "svc-b", PortName: "", Port: 443, Stream: true}},
			Slices: []c13Slice{
				{Name: "s1", Ns: "ns1", Label: lbl, AddrType: "IPv6", Ports: []c13Port{port("http", 8443)}, Eps: []c13Endp{c13Ready("fd00::1", "fd00::2")}},
			}},
	}
}

type c13History struct {
	worlds  []c13World
	reloads []bool
}

func c13PlusCorpus() []c13History {
	lbl := c13Ptr("svc-a")
	port := func(n string, p int32) c13Port { return c13Port{Name: c13Ptr(n), Port: c13Ptr(p)} }
	httpSvc := c13Svc{Ns: "ns1", Name: "svc-a", PortName: "http", Port: 80}
	tlsSvc := c13Svc{Ns: "ns1", Name: "svc-a", PortName: "http", Port: 80, Stream: true}
	sl := func(eps ...c13Endp) []c13Slice {
		return []c13Slice{{Name: "s1", Ns: "ns1", Label: lbl, AddrType: "IPv4", Ports: []c13Port{port("http", 8080)}, Eps: eps}}
	}
	return []c13History{
		// HTTP upstream: scale 0 -> 2 -> 1 -> 0 through the API only
		{worlds: []c13World{
			{Svcs: []c13Svc{httpSvc}},
			{Svcs: []c13Svc{httpSvc}, Slices: sl(c13Ready("10.0.0.1"), c13Ready("10.0.0.2"))},
			{Svcs: []c13Svc{httpSvc}, Slices: sl(c13Ready("10.0.0.1"), c13Unready("10.0.0.2"))},
			{Svcs: []c13Svc{httpSvc}, Slices: sl(c13Unready("10.0.0.1"), c13Unready("10.0.0.2"))},
		}, reloads: []bool{true, false, false, false}},
		// TLSRoute backend: the Service has no ready endpoint when the configuration is loaded, then gets one
		{worlds: []c13World{
			{Svcs: []c13Svc{tlsSvc}, Slices: sl(c13Unready("10.0.0.1"))},
			{Svcs: []c13Svc{tlsSvc}, Slices: sl(c13Ready("10.0.0.1"))},
		}, reloads: []bool{true, false}},
		// TLSRoute backend: 1 -> 0 -> 1
		{worlds: []c13World{
			{Svcs: []c13Svc{tlsSvc}, Slices: sl(c13Ready("10.0.0.1"))},
			{Svcs: []c13Svc{tlsSvc}, Slices: sl(c13Unready("10.0.0.1"))},
			{Svcs: []c13Svc{tlsSvc}, Slices: sl(c13Ready("10.0.0.2"))},
		}, reloads: []bool{true, false, false}},
	}
}
