(* C04 — property theorems (being extended; lexer containment lemmas live in ngx/LexerProofs.v). *)
From Coq Require Import List String.
From NGF Require Import lib.Str.
Import ListNotations.

Theorem C04_string_roundtrip : forall l, chars_of (string_of l) = l.
Proof. exact chars_of_string_of. Qed.
