(* Correspondence and oracle for the match-rule sort: the REAL sortMatchRules on generated lists (several Routes with
   tying rules, visited in a random order) against the model (code 1), and the oracle (code 2), stated on the observed
   order alone: it is a rearrangement of the input in which every earlier rule is before every later one in the order
   (method, header count, query count, Route age, Route namespace/name, position in the Route). *)
From Coq Require Import List String ZArith Bool Arith.
From NGF Require Export lib.CaseLib lib.Str lib.Order C14.MatchSort.
Import ListNotations.

Record case := SCase { s_input : list mrule; s_observed : list nat (* tags in the order the implementation left them *) }.

Fixpoint find_tag (t : nat) (l : list mrule) : option mrule :=
  match l with [] => None | x :: l' => if Nat.eqb (m_tag x) t then Some x else find_tag t l' end.

Fixpoint all_before (x : mrule) (l : list mrule) : bool :=
  match l with [] => true | y :: l' => before x y && all_before x l' end.

Fixpoint strongly_sorted (l : list mrule) : bool :=
  match l with [] => true | x :: l' => all_before x l' && strongly_sorted l' end.

Fixpoint nat_list_eqb (a b : list nat) : bool :=
  match a, b with
  | [], [] => true
  | x :: a', y :: b' => Nat.eqb x y && nat_list_eqb a' b'
  | _, _ => false
  end.

Fixpoint remove_one (t : nat) (l : list nat) : option (list nat) :=
  match l with
  | [] => None
  | x :: l' => if Nat.eqb x t then Some l' else match remove_one t l' with Some r => Some (x :: r) | None => None end
  end.

Fixpoint is_perm (a b : list nat) : bool :=
  match a with
  | [] => match b with [] => true | _ => false end
  | x :: a' => match remove_one x b with Some b' => is_perm a' b' | None => false end
  end.

Definition check_case (c : case) : list nat :=
  let obs := flat_map (fun t => match find_tag t (s_input c) with Some x => [x] | None => [] end) (s_observed c) in
  (if nat_list_eqb (map m_tag (sort (s_input c))) (s_observed c) then [] else [code_mismatch]) ++
  (if is_perm (map m_tag (s_input c)) (s_observed c) && strongly_sorted obs then [] else [code_violation]).
