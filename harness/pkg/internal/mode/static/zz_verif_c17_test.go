//go:build verif

package static

import (
	"context"
	"reflect"
	"strconv"
	"strings"
	"testing"

	metav1 "k8s.io/apimachinery/pkg/apis/meta/v1"
	"sigs.k8s.io/controller-runtime/pkg/client"
	gatewayv1 "sigs.k8s.io/gateway-api/apis/v1"
	"sigs.k8s.io/gateway-api/apis/v1alpha2"

	ngfAPIv1alpha1 "github.com/nginx/nginx-gateway-fabric/apis/v1alpha1"
	"github.com/nginx/nginx-gateway-fabric/internal/framework/helpers"
	vu "github.com/nginx/nginx-gateway-fabric/internal/verifutil"
)

const c17Other = "example.com/other-controller"

// c17AddForeign adds objects that belong to another controller, mimicking the own ones.
func c17AddForeign(r *vu.Rng, c *vsCluster) (typed []client.Object, names []string) {
	hasForeignClass := false
	for _, cl := range c.Classes {
		if cl.Name == "foreign" {
			hasForeignClass = true
		}
	}
	if !hasForeignClass {
		c.Classes = append(c.Classes, vsClass{Name: "foreign", TS: 0, Controller: c17Other})
	}
	names = append(names, "GatewayClass//foreign")
	// a Gateway of the foreign class with the same listeners as ours, older than ours
	fg := vsGateway{NS: "default", Name: "fgw", TS: -5, Class: "foreign"}
	if len(c.Gateways) > 0 {
		fg.Listeners = append(fg.Listeners, c.Gateways[0].Listeners...)
	}
	c.Gateways = append(c.Gateways, fg)
	names = append(names, "Gateway/default/fgw")
	// routes that reference only the foreign gateway, copying rules of our routes
	n := len(c.Routes)
	for i := 0; i < n && i < 3; i++ {
		fr := c.Routes[i]
		fr.Name = "f" + fr.Name
		fr.TS = -3
		fr.NS = "default"
		fr.Parents = []vsParentRef{{NS: vsPtr("default"), Name: "fgw"}}
		c.Routes = append(c.Routes, fr)
		kind := "HTTPRoute"
		if fr.GRPC {
			kind = "GRPCRoute"
		}
		names = append(names, kind+"/default/"+fr.Name)
	}
	// a route whose parentRef is not a Gateway at all (service mesh style)
	if r.Bool() {
		svcKind := gatewayv1.Kind("Service")
		typed = append(typed, &gatewayv1.HTTPRoute{ObjectMeta: metav1.ObjectMeta{Namespace: "default", Name: "mesh", Generation: 1},
			Spec: gatewayv1.HTTPRouteSpec{CommonRouteSpec: gatewayv1.CommonRouteSpec{ParentRefs: []gatewayv1.ParentReference{
				{Group: helpers.GetPointer[gatewayv1.Group](""), Kind: &svcKind, Name: "gw"}}},
				Rules: []gatewayv1.HTTPRouteRule{{BackendRefs: []gatewayv1.HTTPBackendRef{{BackendRef: vsBackendObj(vsBackend{Name: "svc-a", Port: 80, Weight: 1})}}}}}})
		names = append(names, "HTTPRoute/default/mesh")
	}
	// a Route with two parentRefs to one foreign parent and section that differ only in the port (admitted by the
	// Gateway API), and a policy that targets only that Route
	typed = append(typed, &gatewayv1.HTTPRoute{ObjectMeta: metav1.ObjectMeta{Namespace: "default", Name: "fdup", Generation: 1},
		Spec: gatewayv1.HTTPRouteSpec{CommonRouteSpec: gatewayv1.CommonRouteSpec{ParentRefs: []gatewayv1.ParentReference{
			{Name: "fgw", SectionName: helpers.GetPointer[gatewayv1.SectionName]("l0"), Port: helpers.GetPointer[gatewayv1.PortNumber](80)},
			{Name: "fgw", SectionName: helpers.GetPointer[gatewayv1.SectionName]("l0"), Port: helpers.GetPointer[gatewayv1.PortNumber](8080)}}},
			Rules: []gatewayv1.HTTPRouteRule{{BackendRefs: []gatewayv1.HTTPBackendRef{{BackendRef: vsBackendObj(vsBackend{Name: "svc-a", Port: 80, Weight: 1})}}}}}})
	names = append(names, "HTTPRoute/default/fdup")
	typed = append(typed, &ngfAPIv1alpha1.ClientSettingsPolicy{ObjectMeta: metav1.ObjectMeta{Namespace: "default", Name: "fcsp2", Generation: 1},
		Spec: ngfAPIv1alpha1.ClientSettingsPolicySpec{
			TargetRef: v1alpha2.LocalPolicyTargetReference{Group: gatewayv1.GroupName, Kind: "HTTPRoute", Name: "fdup"},
			Body:      &ngfAPIv1alpha1.ClientBody{MaxSize: helpers.GetPointer(ngfAPIv1alpha1.Size("1m"))}}})
	names = append(names, "ClientSettingsPolicy/default/fcsp2")
	// a policy that targets the foreign gateway
	typed = append(typed, &ngfAPIv1alpha1.ClientSettingsPolicy{ObjectMeta: metav1.ObjectMeta{Namespace: "default", Name: "fcsp", Generation: 1},
		Spec: ngfAPIv1alpha1.ClientSettingsPolicySpec{
			TargetRef: v1alpha2.LocalPolicyTargetReference{Group: gatewayv1.GroupName, Kind: "Gateway", Name: "fgw"},
			Body:      &ngfAPIv1alpha1.ClientBody{MaxSize: helpers.GetPointer(ngfAPIv1alpha1.Size("1m"))}}})
	names = append(names, "ClientSettingsPolicy/default/fcsp")
	return typed, names
}

func c17ForeignEntry() gatewayv1.RouteParentStatus {
	return gatewayv1.RouteParentStatus{
		ParentRef:      gatewayv1.ParentReference{Name: "their-gateway", Namespace: helpers.GetPointer[gatewayv1.Namespace]("elsewhere")},
		ControllerName: c17Other,
		Conditions: []metav1.Condition{{Type: "Accepted", Status: metav1.ConditionTrue, Reason: "Accepted", Message: "by them",
			LastTransitionTime: metav1.Unix(1700000000, 0)}},
	}
}

type c17Result struct {
	matches string
	files   [][2]string
	targets []string
	conds   []string
	kept    bool
}

func c17Run(c *vsCluster, typed []client.Object) c17Result {
	ctx := context.Background()
	w := vpNewWorld(false)
	evs := vpBaseEvents()
	for _, o := range append(c.Objects(), typed...) {
		w.Apply(o)
		// every Route starts with a status entry written by another controller
		switch rt := o.(type) {
		case *gatewayv1.HTTPRoute:
			var cur gatewayv1.HTTPRoute
			_ = w.k8s.Get(ctx, client.ObjectKeyFromObject(rt), &cur)
			cur.Status.Parents = []gatewayv1.RouteParentStatus{c17ForeignEntry()}
			if err := w.k8s.Status().Update(ctx, &cur); err != nil {
				panic(err)
			}
		case *gatewayv1.GRPCRoute:
			var cur gatewayv1.GRPCRoute
			_ = w.k8s.Get(ctx, client.ObjectKeyFromObject(rt), &cur)
			cur.Status.Parents = []gatewayv1.RouteParentStatus{c17ForeignEntry()}
			if err := w.k8s.Status().Update(ctx, &cur); err != nil {
				panic(err)
			}
		}
		got := o.DeepCopyObject().(client.Object)
		_ = w.k8s.Get(ctx, client.ObjectKeyFromObject(o), got)
		evs = append(evs, upsertOf(got))
	}
	w.Batch(evs)
	res := c17Result{targets: w.su.targets, conds: vpAllConditions(w), kept: true}
	files := w.Files()
	res.matches = vsMatchTableCoq(files["/etc/nginx/conf.d/matches.json"])
	for _, p := range vpSortedKeys(files) {
		if strings.HasSuffix(p, ".conf") {
			res.files = append(res.files, [2]string{p, files[p]})
		}
	}
	want := c17ForeignEntry()
	check := func(ps []gatewayv1.RouteParentStatus) {
		n := 0
		for _, p := range ps {
			if p.ControllerName == c17Other {
				n++
				if !reflect.DeepEqual(p, want) {
					res.kept = false
				}
			}
		}
		if n != 1 {
			res.kept = false
		}
	}
	var hrs gatewayv1.HTTPRouteList
	_ = w.k8s.List(ctx, &hrs)
	for _, o := range hrs.Items {
		check(o.Status.Parents)
	}
	var grs gatewayv1.GRPCRouteList
	_ = w.k8s.List(ctx, &grs)
	for _, o := range grs.Items {
		check(o.Status.Parents)
	}
	return res
}

func TestVerifC17(t *testing.T) {
	out := vu.Open("C17")
	out.ShardLen(12)
	rng := vu.NewRng(out.Seed ^ 0xC17)
	n := out.Count(120, 3000)
	for i := 0; i < n; i++ {
		r := rng.Fork()
		seed := r.Next()
		own := vsGen(vu.NewRng(seed), (i*6)/n)
		with := vsGen(vu.NewRng(seed), (i*6)/n)
		typed, fnames := c17AddForeign(r, with)
		a := c17Run(with, typed)
		b := c17Run(own, nil)
		isForeign := func(s string) bool {
			for _, f := range fnames {
				if strings.HasPrefix(s, f+"|") {
					return true
				}
			}
			return false
		}
		var condsWith, condsWithout, touched []string
		for _, s := range a.conds {
			if isForeign(s) {
				if !strings.Contains(s, "|by "+c17Other) && !strings.Contains(s, " by "+c17Other) {
					touched = append(touched, s)
				}
			} else {
				condsWith = append(condsWith, s)
			}
		}
		condsWithout = append(condsWithout, b.conds...)
		var targets []string
		for _, tg := range a.targets {
			parts := strings.SplitN(tg, "/", 3)
			targets = append(targets, vu.App("Target", vu.Str(parts[0]), vu.Str(parts[1]), vu.Str(parts[2])))
		}
		term := vu.App("Case", with.Coq(), own.Coq(), c04Texts(a.files), a.matches, c04Texts(b.files), b.matches, vu.List(targets),
			vu.StrList(condsWith), vu.StrList(condsWithout), vu.Bool(a.kept && b.kept), vu.StrList(touched))
		human := map[string]any{"files_with": a.files, "files_without": b.files, "cluster_with_foreign": with, "foreign": fnames, "targets": a.targets, "foreign_touched": touched,
			"conds_with": condsWith, "conds_without": condsWithout}
		out.Case(term, human, len(own.Routes) >= 2, own.Coq())
		out.Tally("routes", strconv.Itoa(len(own.Routes)))
		out.Tally("targets", strconv.Itoa(len(a.targets)))
	}
	out.Close("C17.Check", "")
}
