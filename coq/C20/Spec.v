(* C20 — declarative side: what the help texts document as valid, and what "safe to embed" means.
   Nothing here follows the control flow of the Go code: names are described as dot-separated labels,
   addresses as separated groups, ports as the decimal numerals of a range, NGINX safety as a
   character condition whose sufficiency is proved against the tokeniser (Proofs.v).
   Only the byte/str utilities of Model.v are used (classes of bytes, split_on, split_last). *)
From Coq Require Import String Ascii NArith ZArith Bool Arith List DecimalString.
From NGF Require Import C20.Model.
Import ListNotations.

(* ------------------------------------------------------------------ safe NGINX token *)

(* a byte that ngx_conf_read_token treats as an ordinary byte of a bare word wherever it stands *)
Definition safe_char (c : ascii) : bool :=
  (33 <=? cc c)%N && (cc c <=? 126)%N &&
  negb (has c (lit ";{}""'#$\")).

Definition safe_token (s : str) : bool := negb (is_nil s) && forallb safe_char s.

(* ------------------------------------------------------------------ DNS-1123 (RFC 1123) names *)

Definition label_char (c : ascii) : bool := is_lower_alnum c || Ascii.eqb c c_dash.

(* a label: non-empty, lower-case alphanumerics and '-', alphanumeric at both ends *)
Definition label_ok (l : str) : bool :=
  match l with
  | [] => false
  | c :: _ => is_lower_alnum c && is_lower_alnum (last l c) && forallb label_char l
  end.

Definition subdomain_ok (s : str) : bool :=
  (length s <=? 253) && forallb label_ok (split_on c_dot s).

Definition namespace_ok (s : str) : bool := (length s <=? 63) && label_ok s.

(* ------------------------------------------------------------------ decimal numerals *)

(* the decimal numeral of n, as printed by the standard library *)
Definition dec (n : N) : str := lit (NilZero.string_of_uint (N.to_uint n)).

Fixpoint dec_value (acc : N) (s : str) : N :=
  match s with
  | [] => acc
  | c :: r => dec_value (acc * 10 + digit_val c)%N r
  end.

(* canonical numeral: digits only, no leading zero except "0" itself *)
Definition canon_dec (s : str) : bool :=
  match s with
  | [] => false
  | [c] => is_digit c
  | c :: _ => is_digit c && negb (Ascii.eqb c "0"%char) && forallb is_digit s
  end.

Definition dec_in (lo hi : N) (s : str) : bool :=
  canon_dec s && (length s <=? 20) && (lo <=? dec_value 0 s)%N && (dec_value 0 s <=? hi)%N.

Definition port_ok : str -> bool := dec_in 1 65535.

(* a numeral as strconv accepts it: optional sign, digits *)
Definition signed_value (s : str) : option Z :=
  match s with
  | [] => None
  | c :: r =>
      let body := if Ascii.eqb c c_plus || Ascii.eqb c c_dash then r else s in
      if is_nil body || negb (forallb is_digit body) then None
      else Some (if Ascii.eqb c c_dash then (- Z.of_N (dec_value 0 body))%Z else Z.of_N (dec_value 0 body))
  end.

Definition signed_in (lo hi : Z) (s : str) : bool :=
  match signed_value s with
  | Some v => (lo <=? v)%Z && (v <=? hi)%Z
  | None => false
  end.

(* ------------------------------------------------------------------ IP addresses (textual forms) *)

Definition octet_ok : str -> bool := dec_in 0 255.   (* one to three digits *)

(* dotted quad *)
Definition ipv4_ok (s : str) : bool :=
  match split_on c_dot s with
  | [a; b; c; d] => octet_ok a && octet_ok b && octet_ok c && octet_ok d
  | _ => false
  end.

Definition hexgroup_ok (g : str) : bool :=
  negb (is_nil g) && (length g <=? 4) && forallb is_hex g.

(* split at the first "::" *)
Fixpoint split_dcolon (s : str) : option (str * str) :=
  match s with
  | c1 :: ((c2 :: r) as t) =>
      if Ascii.eqb c1 c_colon && Ascii.eqb c2 c_colon then Some ([], r)
      else match split_dcolon t with
           | Some (a, b) => Some (c1 :: a, b)
           | None => None
           end
  | _ => None
  end.

(* colon-separated groups; the last may be a dotted quad when [v4]; returns the number of 16-bit
   groups they stand for, None when a group is malformed.  The empty string is no group. *)
Fixpoint groups_count (v4 : bool) (gs : list str) : option nat :=
  match gs with
  | [] => Some 0
  | [g] => if hexgroup_ok g then Some 1 else if v4 && ipv4_ok g then Some 2 else None
  | g :: r => if hexgroup_ok g then option_map S (groups_count v4 r) else None
  end.

Definition groups_of (s : str) : list str := if is_nil s then [] else split_on c_colon s.

(* RFC 4291 section 2.2 text forms: eight groups; or one "::" standing for one or more zero groups;
   the last 32 bits may be written as a dotted quad.  No zone. *)
Definition ipv6_ok (s : str) : bool :=
  match split_dcolon s with
  | None =>
      match groups_count true (groups_of s) with
      | Some n => (n =? 8) && negb (is_nil s)
      | None => false
      end
  | Some (l, r) =>
      match groups_count false (groups_of l), groups_count true (groups_of r) with
      | Some n, Some m => n + m <=? 7
      | _, _ => false
      end
  end.

Definition ip_ok (s : str) : bool := ipv4_ok s || ipv6_ok s.

Definition host_ok (s : str) : bool := subdomain_ok s || ip_ok s.

(* ------------------------------------------------------------------ documented flag values *)

(* <host>:<port> with a port 1..65535: the host a DNS name or an IPv4 address ... *)
Definition doc_endpoint_plain (s : str) : bool :=
  match split_last c_colon s with
  | None => false
  | Some (h, p) => port_ok p && (subdomain_ok h || ipv4_ok h)
  end.

(* ... or an IPv6 address in square brackets *)
Definition doc_endpoint_v6 (s : str) : bool :=
  match split_last c_colon s with
  | None => false
  | Some (h, p) =>
      port_ok p &&
      match h with
      | c :: r => Ascii.eqb c c_lbr && negb (is_nil r) && Ascii.eqb (last r c) c_rbr && ipv6_ok (removelast r)
      | [] => false
      end
  end.

Definition doc_endpoint (s : str) : bool := doc_endpoint_plain s || doc_endpoint_v6 s.

(* the port is optional: a bare DNS name or IP address is documented as well *)
Definition doc_endpoint_opt (s : str) : bool := doc_endpoint s || host_ok s.

(* DOMAIN/PATH with DOMAIN = gateway.nginx.org and PATH as in the Gateway API *)
Definition doc_ctlr (s : str) : bool :=
  is_prefix (domain ++ [c_slash]) s &&
  let p := skipn (length domain + 1) s in negb (is_nil p) && forallb ctlr_path_char p.

Definition qname_part_ok (n : str) : bool :=
  match n with
  | [] => false
  | c :: _ => (length n <=? 63) && is_alnum c && is_alnum (last n c) && forallb qname_ext n
  end.

Definition doc_qualified (s : str) : bool :=
  match split_on c_slash s with
  | [n] => qname_part_ok n
  | [p; n] => subdomain_ok p && qname_part_ok n
  | _ => false
  end.

Definition doc_nsname (s : str) : option (str * str) :=
  match split_on c_slash s with
  | [ns; n] => if namespace_ok ns && subdomain_ok n then Some (ns, n) else None
  | _ => None
  end.

(* --metrics-port / --health-port: "Format: [1024 - 65535]" *)
Definition doc_port_flag : str -> bool := dec_in 1024 65535.

(* ------------------------------------------------------------------ soundness side of endpoints *)

(* bytes an accepted endpoint may consist of: host names, addresses, brackets, the port and its sign *)
Definition endpoint_char (c : ascii) : bool :=
  is_lower_alnum c || between 65 70 c || has c (lit ".:-[]+").

Fixpoint count_char (c : ascii) (s : str) : nat :=
  match s with [] => 0 | x :: r => (if Ascii.eqb x c then 1 else 0) + count_char c r end.

(* the port text of an endpoint, where the notation is unambiguous: "[...]:<port>" or exactly one colon *)
Definition port_text (s : str) : option str :=
  match s with
  | c :: _ =>
      if Ascii.eqb c c_lbr || (count_char c_colon s =? 1)
      then option_map snd (split_last c_colon s) else None
  | [] => None
  end.

(* accepted endpoint: one safe token, only bytes of the grammar, port (where the notation shows one) in range *)
Definition endpoint_sound (port_required : bool) (s : str) : bool :=
  safe_token s && forallb endpoint_char s &&
  match port_text s with
  | Some p => if is_nil p then negb port_required else signed_in 1 65535 p
  | None => negb port_required
  end.

(* what the property itself demands of an accepted endpoint (the weaker reading used by the oracle):
   one safe token whose port is in range; [endpoint_sound] adds the byte set, which is proved too *)
Definition endpoint_safe (port_required : bool) (s : str) : bool :=
  safe_token s &&
  match port_text s with
  | Some p => if is_nil p then negb port_required else signed_in 1 65535 p
  | None => negb port_required
  end.

(* ------------------------------------------------------------------ what mgmt.conf must tokenise to *)

Definition word (s : string) : tok := TW (lit s).

Definition mgmt_tokens (e r : str) (skip ca client : bool) : list tok :=
  [word "mgmt"; TOpen]
  ++ (if is_nil e then [] else [word "usage_report"; TW (lit "endpoint=" ++ e); TSemi])
  ++ (if is_nil r then [] else [word "resolver"; TW r; TSemi])
  ++ [word "license_token"; word "/etc/nginx/secrets/license.jwt"; TSemi;
      word "deployment_context"; word "/etc/nginx/main-includes/deployment_ctx.json"; TSemi]
  ++ (if skip then [word "ssl_verify"; word "off"; TSemi] else [])
  ++ (if ca then [word "ssl_trusted_certificate"; word "/etc/nginx/secrets/mgmt-ca.crt"; TSemi] else [])
  ++ (if client then [word "ssl_certificate"; word "/etc/nginx/secrets/mgmt-tls.crt"; TSemi;
                      word "ssl_certificate_key"; word "/etc/nginx/secrets/mgmt-tls.key"; TSemi] else [])
  ++ [TClose].
