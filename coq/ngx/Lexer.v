(* Model of NGINX's configuration tokenizer (src/core/ngx_conf_file.c: ngx_conf_read_token) and of the
   block structure built on top of it (ngx_conf_parse).  Written from the NGINX source/documentation:
   no NGINX binary exists in this sandbox, so this file is part of the trusted base of every property
   that reads generated configuration (C02, C03, C04, C16).

   Modelled: whitespace, hash comments (only at token start), semicolon and brace terminators, single- and
   double-quoted tokens, backslash escapes (in and outside quotes), the dollar-brace rule (an opening brace directly
   after a dollar sign does not open a block), need-space-after-closing-quote (with the closing
   parenthesis exception), escape processing of token contents (backslash before a quote or a backslash
   is dropped; backslash-t, -r, -n give control characters).
   Not modelled: the 4096-byte token limit, include expansion (done by the caller), Lua blocks. *)
From Coq Require Import List String Ascii Bool Arith.
Import ListNotations.
Local Open Scope char_scope.

Definition chars := list ascii.

Fixpoint chars_of (s : string) : chars :=
  match s with EmptyString => [] | String c s' => c :: chars_of s' end.
Fixpoint string_of (l : chars) : string :=
  match l with [] => EmptyString | c :: l' => String c (string_of l') end.

Definition ch_tab : ascii := ascii_of_nat 9.
Definition ch_lf : ascii := ascii_of_nat 10.
Definition ch_cr : ascii := ascii_of_nat 13.

Definition aeqb (a b : ascii) : bool := Ascii.eqb a b.

Definition is_ws (c : ascii) : bool :=
  aeqb c " " || aeqb c ch_tab || aeqb c ch_cr || aeqb c ch_lf.

Inductive tok :=
| TWord (quoted : bool) (raw : chars)   (* raw: characters between the delimiters, escapes unprocessed *)
| TSemi | TOpen | TClose.

(* control state of the tokenizer *)
Inductive lst :=
| LStart                                  (* last_space: between tokens *)
| LComment                                (* sharp_comment *)
| LBare (acc : chars) (esc var : bool)    (* inside an unquoted token; acc is reversed *)
| LQuote (q : ascii) (acc : chars) (esc var : bool)
| LNeedSpace.                             (* just after a closing quote *)

Inductive lres := LOk (s : lst) (emit : list tok) | LErr.

(* one character *)
Definition lstep (s : lst) (c : ascii) : lres :=
  match s with
  | LComment => if aeqb c ch_lf then LOk LStart [] else LOk LComment []
  | LStart =>
      if is_ws c then LOk LStart []
      else if aeqb c ";" then LOk LStart [TSemi]
      else if aeqb c "{" then LOk LStart [TOpen]
      else if aeqb c "}" then LOk LStart [TClose]
      else if aeqb c "#" then LOk LComment []
      else if aeqb c "\" then LOk (LBare [c] true false) []
      else if aeqb c """" then LOk (LQuote c [] false false) []
      else if aeqb c "'" then LOk (LQuote c [] false false) []
      else if aeqb c "$" then LOk (LBare [c] false true) []
      else LOk (LBare [c] false false) []
  | LNeedSpace =>
      if is_ws c then LOk LStart []
      else if aeqb c ";" then LOk LStart [TSemi]
      else if aeqb c "{" then LOk LStart [TOpen]
      else if aeqb c ")" then LOk (LBare [c] false false) []
      else LErr
  | LBare acc esc var =>
      if esc then LOk (LBare (c :: acc) false false) []
      else if aeqb c "{" && var then LOk (LBare (c :: acc) false false) []
      else if aeqb c "\" then LOk (LBare (c :: acc) true false) []
      else if aeqb c "$" then LOk (LBare (c :: acc) false true) []
      else if is_ws c then LOk LStart [TWord false (rev acc)]
      else if aeqb c ";" then LOk LStart [TWord false (rev acc); TSemi]
      else if aeqb c "{" then LOk LStart [TWord false (rev acc); TOpen]
      else LOk (LBare (c :: acc) false false) []
  | LQuote q acc esc var =>
      if esc then LOk (LQuote q (c :: acc) false false) []
      else if aeqb c "{" && var then LOk (LQuote q (c :: acc) false false) []
      else if aeqb c "\" then LOk (LQuote q (c :: acc) true false) []
      else if aeqb c "$" then LOk (LQuote q (c :: acc) false true) []
      else if aeqb c q then LOk LNeedSpace [TWord true (rev acc)]
      else LOk (LQuote q (c :: acc) false false) []
  end.

Fixpoint lrun (s : lst) (cs : chars) : option (lst * list tok) :=
  match cs with
  | [] => Some (s, [])
  | c :: cs' =>
      match lstep s c with
      | LErr => None
      | LOk s1 out =>
          match lrun s1 cs' with
          | None => None
          | Some (s2, out2) => Some (s2, out ++ out2)
          end
      end
  end.

(* a file must end between tokens (NGINX: unexpected end of file) *)
Definition final_ok (s : lst) : bool :=
  match s with LStart | LComment => true | _ => false end.

Definition lex_chars (cs : chars) : option (list tok) :=
  match lrun LStart cs with
  | Some (s, out) => if final_ok s then Some out else None
  | None => None
  end.

Definition lex (s : string) : option (list tok) := lex_chars (chars_of s).

(* escape processing when the token is copied into the argument array *)
Fixpoint unescape (cs : chars) : chars :=
  match cs with
  | [] => []
  | c :: rest =>
      if aeqb c "\" then
        match rest with
        | d :: rest' =>
            if aeqb d """" || aeqb d "'" || aeqb d "\" then d :: unescape rest'
            else if aeqb d "t" then ch_tab :: unescape rest'
            else if aeqb d "r" then ch_cr :: unescape rest'
            else if aeqb d "n" then ch_lf :: unescape rest'
            else c :: d :: unescape rest'
        | [] => [c]
        end
      else c :: unescape rest
  end.

Definition word_value (raw : chars) : string := string_of (unescape raw).

(* ---------------------------------------------------------------- block structure *)

Inductive dir := Dir (name : string) (args : list string) (block : option (list dir)).

Definition d_name (d : dir) := match d with Dir n _ _ => n end.
Definition d_args (d : dir) := match d with Dir _ a _ => a end.
Definition d_block (d : dir) := match d with Dir _ _ b => b end.

(* parse directives until a closing brace (when depth > 0) or end of input. Returns the directives, the rest of
   the tokens, and whether a closing brace ended the list. Fuel = number of tokens + 1. *)
Fixpoint parse_items (fuel : nat) (toks : list tok) (words : list string) (acc : list dir)
  : option (list dir * list tok * bool) :=
  match fuel with
  | 0 => None
  | S f =>
      match toks with
      | [] => match words with [] => Some (rev acc, [], false) | _ => None end
      | TWord _ raw :: rest => parse_items f rest (words ++ [word_value raw]) acc
      | TSemi :: rest =>
          match words with
          | [] => None                          (* unexpected semicolon *)
          | n :: a => parse_items f rest [] (Dir n a None :: acc)
          end
      | TOpen :: rest =>
          match words with
          | [] => None                          (* unexpected brace *)
          | n :: a =>
              match parse_items f rest [] [] with
              | Some (body, rest', true) => parse_items f rest' [] (Dir n a (Some body) :: acc)
              | _ => None                       (* block not closed *)
              end
          end
      | TClose :: rest =>
          match words with
          | [] => Some (rev acc, rest, true)
          | _ => None                           (* unexpected closing brace *)
          end
      end
  end.

Definition parse_toks (toks : list tok) : option (list dir) :=
  match parse_items (S (List.length toks)) toks [] [] with
  | Some (ds, [], false) => Some ds
  | _ => None
  end.

Definition parse_conf (s : string) : option (list dir) :=
  match lex s with
  | Some toks => parse_toks toks
  | None => None
  end.
