(* C12 — executable model of
     internal/mode/static/nginx/runtime/manager.go   (ManagerImpl.Reload, ProcessHandlerImpl.FindMainProcess)
     internal/mode/static/nginx/runtime/verify.go    (WaitForCorrectVersion, ensureNewNginxWorkers,
                                                      EnsureConfigVersion, GetConfigVersion)
     internal/mode/static/handler.go                 (HandleEventBatch: version counter, latestReloadResult,
                                                      updateNginxConf / updateUpstreamServers, readiness)
     internal/mode/static/health.go                  (nginxConfiguredOnStartChecker)
   plus a small labelled transition system standing for the NGINX master (modelled, not verified).

   Environment of one Reload = the answers the outside world gave to the successive polls, in order.
   A poll list that runs out stands for the deadline (PidFileTimeout, VerifyClient.timeout, or the
   caller's context) expiring at that point: wait.PollUntilContextCancel stops polling and returns
   the context error.  The theorems quantify over all such lists, i.e. over every length of waiting. *)
From Coq Require Import List ZArith String Ascii Bool Arith.
Import ListNotations.
Local Open Scope Z_scope.

(* ------------------------------------------------------------------ strconv.Atoi, strings.TrimSpace *)

Definition is_digit (c : ascii) : bool :=
  let n := nat_of_ascii c in (Nat.leb 48 n && Nat.leb n 57)%bool.

Fixpoint digits_val (s : string) (acc : Z) : option Z :=
  match s with
  | EmptyString => Some acc
  | String c s' =>
      if is_digit c then digits_val s' (acc * 10 + (Z.of_nat (nat_of_ascii c) - 48)) else None
  end.

Definition int_min : Z := - 9223372036854775808.
Definition int_max : Z := 9223372036854775807.

(* strconv.Atoi on a 64-bit platform: optional sign, at least one digit, digits only, int64 range *)
Definition atoi (s : string) : option Z :=
  let '(neg, body) :=
    match s with
    | String c r =>
        if Ascii.eqb c "+"%char then (false, r)
        else if Ascii.eqb c "-"%char then (true, r) else (false, s)
    | EmptyString => (false, s)
    end in
  match body with
  | EmptyString => None
  | _ =>
      match digits_val body 0 with
      | None => None
      | Some n =>
          let z := if neg then - n else n in
          if (int_min <=? z) && (z <=? int_max) then Some z else None
      end
  end.

(* white space of strings.TrimSpace among the bytes below 0x80 (the generator emits ASCII only) *)
Definition is_space (c : ascii) : bool :=
  let n := nat_of_ascii c in
  (Nat.eqb n 9 || Nat.eqb n 10 || Nat.eqb n 11 || Nat.eqb n 12 || Nat.eqb n 13 || Nat.eqb n 32)%bool.

Fixpoint trim_left (s : string) : string :=
  match s with
  | String c s' => if is_space c then trim_left s' else s
  | EmptyString => s
  end.

(* drops trailing white space: a character is kept iff something non-space follows or it is non-space *)
Fixpoint trim_right (s : string) : string :=
  match s with
  | EmptyString => EmptyString
  | String c s' =>
      match trim_right s' with
      | EmptyString => if is_space c then EmptyString else String c EmptyString
      | t => String c t
      end
  end.

Definition trim_space (s : string) : string := trim_right (trim_left s).

(* ------------------------------------------------------------------ environment of one Reload *)

Inductive statres := StOk | StMissing | StErr.      (* os.Stat(PidFile): nil / fs.ErrNotExist / other error *)
Inductive readres := RdOk (content : string) | RdErr.
Inductive vans :=
| VResp (status : Z) (body : string)                (* an HTTP response from the version endpoint *)
| VFail.                                            (* dial/transport error or request time-out *)

Record env := Env {
  e_stat : list statres;       (* answers to the successive Stat(PidFile) polls *)
  e_pidfile : readres;         (* ReadFile(PidFile) *)
  e_children0 : readres;       (* ReadFile(/proc/pid/task/pid/children) before the signal *)
  e_kill : bool;               (* Kill(pid, SIGHUP) returned nil *)
  e_children : list readres;   (* the successive reads of the children file after the signal *)
  e_versions : list vans       (* the successive GET /version *)
}.

Inductive stage := SFindPid | SReadChildren | SSignal | SNoNewWorkers | SVersion.
Inductive result := Ok | Err (s : stage).

(* what the control plane did to its environment, and what it reported *)
Record outcome := Out {
  o_res : result;
  o_kill : option Z;       (* pid that was sent SIGHUP, if Kill was called *)
  o_nstat : nat;           (* polls consumed *)
  o_readpid : bool;
  o_readch0 : bool;
  o_nchildren : nat;
  o_nversions : nat;
  o_reloads : nat;         (* MetricsCollector.IncReloadCount calls *)
  o_errors : nat           (* MetricsCollector.IncReloadErrors calls *)
}.

(* FindMainProcess: poll immediately, then every 500 ms: nil => found; ErrNotExist => again; other => fail *)
Fixpoint poll_stat (l : list statres) : bool * nat :=
  match l with
  | [] => (false, O)
  | StOk :: _ => (true, 1%nat)
  | StErr :: _ => (false, 1%nat)
  | StMissing :: l' => let '(r, n) := poll_stat l' in (r, S n)
  end.

(* ensureNewNginxWorkers: a read error fails at once; content different from before => done *)
Fixpoint poll_children (prev : string) (l : list readres) : bool * nat :=
  match l with
  | [] => (false, O)
  | RdErr :: _ => (false, 1%nat)
  | RdOk c :: l' =>
      if String.eqb prev c then let '(r, n) := poll_children prev l' in (r, S n)
      else (true, 1%nat)
  end.

(* GetConfigVersion: transport error, status <> 200, body not an int => error *)
Definition version_of (a : vans) : option Z :=
  match a with
  | VFail => None
  | VResp st body => if st =? 200 then atoi body else None
  end.

(* EnsureConfigVersion: an error fails at once; version = expected => done *)
Fixpoint poll_version (v : Z) (l : list vans) : bool * nat :=
  match l with
  | [] => (false, O)
  | a :: l' =>
      match version_of a with
      | None => (false, 1%nat)
      | Some n => if n =? v then (true, 1%nat) else let '(r, k) := poll_version v l' in (r, S k)
      end
  end.

Definition reload (e : env) (v : Z) : outcome :=
  match poll_stat (e_stat e) with
  | (false, n) => Out (Err SFindPid) None n false false O O O O
  | (true, n) =>
      match e_pidfile e with
      | RdErr => Out (Err SFindPid) None n true false O O O O
      | RdOk c =>
          match atoi (trim_space c) with
          | None => Out (Err SFindPid) None n true false O O O O
          | Some pid =>
              match e_children0 e with
              | RdErr => Out (Err SReadChildren) None n true true O O O O
              | RdOk prev =>
                  if negb (e_kill e) then Out (Err SSignal) (Some pid) n true true O O O 1
                  else
                    match poll_children prev (e_children e) with
                    | (false, k) => Out (Err SNoNewWorkers) (Some pid) n true true k O O 1
                    | (true, k) =>
                        match poll_version v (e_versions e) with
                        | (false, m) => Out (Err SVersion) (Some pid) n true true k m O 1
                        | (true, m) => Out Ok (Some pid) n true true k m 1 O
                        end
                    end
              end
          end
      end
  end.

Definition is_ok (r : result) : bool := match r with Ok => true | Err _ => false end.

(* ------------------------------------------------------------------ NGINX master (modelled) *)

(* [ng_loaded]: version of the configuration the master runs; [ng_alive]: versions of the worker
   generations that still answer requests (old generations linger while they drain). *)
Record nginx := Ng { ng_loaded : Z; ng_alive : list Z }.

Inductive nlabel :=
| LHup (delivered : bool) (load : option Z)
                              (* the control plane's Kill(pid, SIGHUP), whether it reached the master, and the
                                 version found in the files on disk if the master loaded them *)
| LAnswer (a : vans)          (* one GET /version and its answer *)
| LTau.                       (* internal: a generation finishes draining, a worker is respawned, ... *)

Definition remove_z (n : Z) (l : list Z) : list Z := filter (fun x => negb (x =? n)) l.

Inductive nstep : nginx -> nlabel -> nginx -> Prop :=
| ns_hup_load : forall ng d,                     (* master re-reads the files (version d on disk), forks workers *)
    nstep ng (LHup true (Some d)) (Ng d (d :: ng_alive ng))
| ns_hup_keep : forall ng b,                     (* signal lost, or configuration rejected: nothing changes *)
    nstep ng (LHup b None) ng
| ns_retire : forall ng n,                       (* a generation exits *)
    nstep ng LTau (Ng (ng_loaded ng) (remove_z n (ng_alive ng)))
| ns_respawn : forall ng,                        (* a worker dies and is respawned with the running configuration *)
    nstep ng LTau (Ng (ng_loaded ng) (ng_loaded ng :: ng_alive ng))
| ns_answer_num : forall ng st body n,           (* a live worker answers with the version of its configuration *)
    version_of (VResp st body) = Some n -> In n (ng_alive ng) ->
    nstep ng (LAnswer (VResp st body)) ng
| ns_answer_bad : forall ng a,                   (* refused, reset, non-200, garbage, time-out *)
    version_of a = None -> nstep ng (LAnswer a) ng.

Inductive nrun : nginx -> list nlabel -> nginx -> Prop :=
| nrun_nil : forall ng, nrun ng [] ng
| nrun_cons : forall ng l ng1 tr ng2, nstep ng l ng1 -> nrun ng1 tr ng2 -> nrun ng (l :: tr) ng2.

Definition is_hup (l : nlabel) : bool := match l with LHup _ _ => true | _ => false end.
Definition is_tau (l : nlabel) : bool := match l with LTau => true | _ => false end.
Fixpoint answers_of (tr : list nlabel) : list vans :=
  match tr with
  | [] => []
  | LAnswer a :: tr' => a :: answers_of tr'
  | _ :: tr' => answers_of tr'
  end.

(* ------------------------------------------------------------------ event handler *)

Inductive change := NoChange | EndpointsOnly | ClusterState.

Record hstate := HS {
  h_version : Z;        (* eventHandlerImpl.version *)
  h_lasterr : bool;     (* latestReloadResult.Error != nil *)
  h_ready : bool;       (* nginxConfiguredOnStartChecker.ready *)
  h_fbe : bool          (* firstBatchError != nil *)
}.
Definition hinit : hstate := HS 0 false false false.

Record batch := Batch {
  b_svc : bool;         (* the batch carries an event for the NGF Service while a graph exists *)
  b_change : change;    (* what ChangeProcessor.Process returned *)
  b_write_ok : bool;    (* file.Manager.ReplaceFiles returned nil *)
  b_reload_ok : bool;   (* runtime.Manager.Reload returned nil *)
  b_plus_ok : bool      (* GetUpstreams and every Update*Servers returned nil *)
}.

Inductive failure := FWrite | FReload | FUpstreams.

Definition update_upstreams (plus : bool) (b : batch) : option failure :=
  if plus then (if b_plus_ok b then None else Some FUpstreams) else None.

Definition update_nginx_conf (plus : bool) (b : batch) : option failure :=
  if negb (b_write_ok b) then Some FWrite
  else if negb (b_reload_ok b) then Some FReload
  else update_upstreams plus b.

(* does this batch write files (and, if that works, signal NGINX)? *)
Definition writes (plus : bool) (c : change) : bool :=
  match c with
  | NoChange => false
  | EndpointsOnly => negb plus
  | ClusterState => true
  end.

Definition apply_conf (plus : bool) (b : batch) : option failure :=
  if writes plus (b_change b) then update_nginx_conf plus b else update_upstreams plus b.

Record hout := HO {
  ho_svc : option bool;       (* Gateway statuses issued for the Service event: built with "reload failed"? *)
  ho_built : option Z;        (* version given to BuildConfiguration *)
  ho_written : option Z;      (* version inside the file set given to ReplaceFiles *)
  ho_reloaded : option Z;     (* version given to Reload *)
  ho_status : option bool;    (* statuses issued at the end of the batch: built with "reload failed"? *)
  ho_ready : bool             (* readyz after the batch *)
}.

Definition hstep (plus : bool) (s : hstate) (b : batch) : hstate * hout :=
  let svc := if b_svc b then Some (h_lasterr s) else None in
  match b_change b with
  | NoChange =>
      let rdy := if negb (h_ready s) && negb (h_fbe s) then true else h_ready s in
      let fbe := if negb (h_ready s) && negb (h_fbe s) then false else h_fbe s in
      (HS (h_version s) (h_lasterr s) rdy fbe, HO svc None None None None rdy)
  | _ =>
      let v := h_version s + 1 in
      let w := writes plus (b_change b) in
      let res := apply_conf plus b in
      let failed := match res with Some _ => true | None => false end in
      let rdy := if failed then h_ready s else true in
      let fbe := if failed then (if h_ready s then h_fbe s else true)
                 else (if h_ready s then h_fbe s else false) in
      (HS v failed rdy fbe,
       HO svc (Some v)
          (if w then Some v else None)
          (if w && b_write_ok b then Some v else None)
          (Some failed) rdy)
  end.

Fixpoint hrun (plus : bool) (s : hstate) (bs : list batch) : hstate * list hout :=
  match bs with
  | [] => (s, [])
  | b :: bs' =>
      let '(s1, o) := hstep plus s b in
      let '(s2, os) := hrun plus s1 bs' in
      (s2, o :: os)
  end.

(* ------------------------------------------------------------------ handler and NGINX together *)

(* One batch of the whole system: the handler's inputs, the environment of its Reload call (if it makes
   one) and what the NGINX master did meanwhile. *)
Record sbatch := SB {
  sb_svc : bool; sb_change : change; sb_write_ok : bool; sb_plus_ok : bool;
  sb_env : env; sb_trace : list nlabel
}.

Definition to_batch (s : hstate) (sb : sbatch) : batch :=
  Batch (sb_svc sb) (sb_change sb) (sb_write_ok sb)
        (is_ok (o_res (reload (sb_env sb) (h_version s + 1)))) (sb_plus_ok sb).

(* NGINX's trace during a Reload call fits what the control plane did and saw: nothing but internal
   steps before the signal, exactly one signal (ours, if Kill was called at all), and the answers
   the control plane consumed, in order, after it. *)
Definition trace_fits (e : env) (out : outcome) (tr : list nlabel) : Prop :=
  match o_kill out with
  | None => forallb is_tau tr = true
  | Some _ =>
      exists pre ld post,
        tr = pre ++ LHup (e_kill e) ld :: post /\ forallb is_tau pre = true /\
        forallb (fun l => negb (is_hup l)) post = true /\
        answers_of post = firstn (o_nversions out) (e_versions e)
  end.

(* every configuration the master loads was put on disk by this control plane, hence carries at most
   the version being applied (manager.go clears the configuration folders at start-up) *)
Definition loads_le (v : Z) (tr : list nlabel) : Prop :=
  forall b d, In (LHup b (Some d)) tr -> d <= v.

Inductive sys_run (plus : bool) : hstate -> nginx -> list sbatch -> list (hout * nginx) -> Prop :=
| sr_nil : forall s ng, sys_run plus s ng [] []
| sr_cons : forall s ng sb s' o ng' rest outs,
    hstep plus s (to_batch s sb) = (s', o) ->
    (if writes plus (sb_change sb) && sb_write_ok sb
     then trace_fits (sb_env sb) (reload (sb_env sb) (h_version s + 1)) (sb_trace sb) /\
          loads_le (h_version s + 1) (sb_trace sb)
     else forallb is_tau (sb_trace sb) = true) ->
    nrun ng (sb_trace sb) ng' ->
    sys_run plus s' ng' rest outs ->
    sys_run plus s ng (sb :: rest) ((o, ng') :: outs).
