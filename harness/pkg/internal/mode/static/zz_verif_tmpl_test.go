//go:build verif

package static

import (
	"encoding/json"
	"strconv"
	"strings"
	"testing"
	"text/template/parse"

	"sigs.k8s.io/controller-runtime/pkg/client"

	ngxcfg "github.com/nginx/nginx-gateway-fabric/internal/mode/static/nginx/config"
	vu "github.com/nginx/nginx-gateway-fabric/internal/verifutil"
)

// tmplConstants lists the string constants of the templates (the strings an execution may compare data with):
// a data string equal to one of them is never made a hole.
func tmplConstants(regs []vu.TmplReg) map[string]bool {
	out := map[string]bool{}
	var walk func(n parse.Node)
	walk = func(n parse.Node) {
		switch x := n.(type) {
		case *parse.ListNode:
			if x != nil {
				for _, c := range x.Nodes {
					walk(c)
				}
			}
		case *parse.ActionNode:
			walk(x.Pipe)
		case *parse.IfNode:
			walk(x.Pipe)
			walk(x.List)
			walk(x.ElseList)
		case *parse.RangeNode:
			walk(x.Pipe)
			walk(x.List)
			walk(x.ElseList)
		case *parse.PipeNode:
			if x != nil {
				for _, c := range x.Cmds {
					walk(c)
				}
			}
		case *parse.CommandNode:
			for _, a := range x.Args {
				walk(a)
			}
		case *parse.StringNode:
			out[x.Text] = true
		}
	}
	for _, r := range regs {
		walk((*r.Ptr).Tree.Root)
	}
	return out
}

func tmplPlain(s string) bool {
	if s == "" {
		return false
	}
	for i := 0; i < len(s); i++ {
		switch c := s[i]; {
		case c == ' ' || c == '\t' || c == '\r' || c == '\n', c == ';', c == '{', c == '}', c == '#', c == '\\', c == '"', c == '\'', c == '$', c == ')':
			return false
		}
	}
	return true
}

// TestVerifTmpl records every template execution of the REAL generator inside the REAL pipeline and emits one case per
// distinct (template, data): the data by reflection, the holes' contents and the text the real engine produced.
//
//	mode "marked": the C04 base scenario with the marker-carrying benign value of every leaf planted; holes = the
//	               string leaves of the template data that carry the marker (the user-controlled ones);
//	mode "spaced": one leaf at a time gets its benign value followed by a space and a second word;
//	mode "states": generated cluster states with the NGF policy layer (OSS and Plus); holes = every plain string
//	               leaf that no template constant equals.
func TestVerifTmpl(t *testing.T) {
	out := vu.Open("TMPL")
	out.ShardLen(40)
	rng := vu.NewRng(out.Seed ^ 0x7E3A)
	regs := ngxcfg.VerifAllTemplates()
	consts := tmplConstants(regs)
	var recs []vu.TmplExec
	restore := vu.WrapTemplates(regs, func(e vu.TmplExec) { recs = append(recs, e) })
	defer restore()
	seen := map[string]bool{}
	emit := func(mode string, taint func(string, bool) bool) {
		for _, e := range recs {
			h := &vu.TmplHoles{Taint: taint}
			val := vu.TmplValue(e.Data, h)
			var sg []string
			for _, s := range h.Vals {
				sg = append(sg, vu.Str(s))
			}
			term := vu.App("TCase", vu.Str(e.Name), val, vu.List(sg), vu.Str(e.Out))
			if seen[term] {
				continue
			}
			seen[term] = true
			dj, _ := json.Marshal(e.Data)
			human := map[string]any{"mode": mode, "template": e.Name, "data": json.RawMessage(dj), "holes": h.Vals, "output": e.Out}
			out.Case(term, human, len(h.Vals) > 0 && len(e.Out) > 200, term)
			out.Tally("template", e.Name)
			out.Tally("mode", mode)
			out.Tally("holes", strconv.Itoa(len(h.Vals)))
		}
		recs = nil
	}
	// a marked leaf that the generator has already composed with variables or quotes stays concrete
	marked := func(s string, _ bool) bool {
		return strings.Contains(strings.ToLower(s), "zqx") && !strings.ContainsAny(s, "$\\\"'")
	}

	// ---- marked: every leaf benign at once
	leaves := c04Leaves()
	{
		c, e := c04Base(), c04BaseExtras()
		var posts []func([]client.Object)
		for _, l := range leaves {
			l := l
			if l.post != nil {
				posts = append(posts, func(objs []client.Object) { l.post(objs, l.benign) })
				continue
			}
			l.set(c, e, l.benign)
		}
		c04Run(c, e, func(objs []client.Object) {
			for _, p := range posts {
				p(objs)
			}
		})
		emit("marked", marked)
	}
	// ---- spaced: one leaf at a time, a value that needs quoting if it is accepted
	for _, l := range leaves {
		if l.post != nil {
			continue
		}
		c, e := c04Base(), c04BaseExtras()
		l.set(c, e, l.benign+" zqx b")
		c04Run(c, e, nil)
		emit("spaced", marked)
	}
	// ---- states
	auto := func(s string, named bool) bool { return tmplPlain(s) && !consts[s] && !named }
	n := out.Count(40, 600)
	for i := 0; i < n; i++ {
		r := rng.Fork()
		c := vsGen(r, (i*6)/n)
		plus := r.Chance(1, 4)
		if plus && len(c.Classes) > 0 && c.Classes[0].Name == vpClassName && c.Classes[0].Controller != vpCtlrName {
			plus = false // known finding D35 (C05)
		}
		var extra []client.Object
		withParams := false
		if r.Chance(2, 3) {
			extra, withParams, _ = c03Policies(r, c)
		}
		vpRunStateWith(c, plus, extra, withParams)
		emit("states", auto)
	}
	out.Extra("templates", len(regs))
	out.Close("ngx.TmplCheck", "")
}
