//go:build verif

package status

import (
	"encoding/json"
	"fmt"
	"os"
	"os/exec"
	"path/filepath"
	"regexp"
	"sort"
	"strings"
	"time"
	"unicode/utf8"

	"sigs.k8s.io/controller-runtime/pkg/client"
	"sigs.k8s.io/yaml"
)

// C08, part 2: stand-in for the API server's structural validation of the status sub-resource. The
// apiextensions validator does not build offline, so this walks the OpenAPI schema of the REAL CRD YAML
// files (config/crd/bases and gateway-api's config/crd/experimental in the module cache): type, required,
// properties, items, min/maxItems, min/maxLength (in runes, as the API server counts), pattern, enum,
// format date-time, list-type=map key uniqueness. CEL rules (x-kubernetes-validations) are not evaluated.

type c08Schema map[string]any

type c08CRDs struct {
	status map[string]c08Schema // Kind/version -> schema of .status
}

func c08RepoRoot() string {
	wd, err := os.Getwd()
	if err != nil {
		panic(err)
	}
	for d := wd; d != "/"; d = filepath.Dir(d) {
		if _, err := os.Stat(filepath.Join(d, "go.mod")); err == nil {
			return d
		}
	}
	panic("c08: go.mod not found above " + wd)
}

func c08GatewayAPIDir(root string) string {
	cmd := exec.Command("go", "list", "-m", "-f", "{{.Dir}}", "sigs.k8s.io/gateway-api")
	cmd.Dir = root
	out, err := cmd.Output()
	if err != nil {
		panic(fmt.Sprintf("c08: go list -m sigs.k8s.io/gateway-api: %v", err))
	}
	return strings.TrimSpace(string(out))
}

func c08LoadCRDs() *c08CRDs {
	root := c08RepoRoot()
	files, _ := filepath.Glob(filepath.Join(root, "config/crd/bases/*.yaml"))
	more, _ := filepath.Glob(filepath.Join(c08GatewayAPIDir(root), "config/crd/experimental/*.yaml"))
	files = append(files, more...)
	crds := &c08CRDs{status: map[string]c08Schema{}}
	for _, f := range files {
		raw, err := os.ReadFile(f)
		if err != nil {
			panic(err)
		}
		var doc map[string]any
		if err := yaml.Unmarshal(raw, &doc); err != nil {
			panic(fmt.Sprintf("c08: %s: %v", f, err))
		}
		spec, ok := doc["spec"].(map[string]any)
		if !ok {
			continue
		}
		kind := spec["names"].(map[string]any)["kind"].(string)
		for _, v := range spec["versions"].([]any) {
			vm := v.(map[string]any)
			sch := vm["schema"].(map[string]any)["openAPIV3Schema"].(map[string]any)
			props, _ := sch["properties"].(map[string]any)
			st, ok := props["status"].(map[string]any)
			if !ok {
				continue
			}
			crds.status[kind+"/"+vm["name"].(string)] = st
		}
	}
	return crds
}

func c08Int(m map[string]any, k string) (int, bool) {
	switch v := m[k].(type) {
	case float64:
		return int(v), true
	case int64:
		return int(v), true
	case int:
		return v, true
	}
	return 0, false
}

var c08Regexps = map[string]*regexp.Regexp{}

func c08Match(pat, s string) bool {
	re, ok := c08Regexps[pat]
	if !ok {
		re = regexp.MustCompile(pat)
		c08Regexps[pat] = re
	}
	return re.MatchString(s)
}

func c08Walk(sch map[string]any, val any, path string, errs *[]string) {
	bad := func(f string, a ...any) { *errs = append(*errs, path+": "+fmt.Sprintf(f, a...)) }
	if val == nil {
		if n, _ := sch["nullable"].(bool); !n {
			bad("null")
		}
		return
	}
	typ, _ := sch["type"].(string)
	switch typ {
	case "object":
		m, ok := val.(map[string]any)
		if !ok {
			bad("not an object")
			return
		}
		if req, ok := sch["required"].([]any); ok {
			for _, r := range req {
				if _, present := m[r.(string)]; !present {
					bad("required field %q missing", r)
				}
			}
		}
		props, _ := sch["properties"].(map[string]any)
		keys := make([]string, 0, len(m))
		for k := range m {
			keys = append(keys, k)
		}
		sort.Strings(keys)
		for _, k := range keys {
			if ps, ok := props[k].(map[string]any); ok {
				c08Walk(ps, m[k], path+"."+k, errs)
			}
		}
	case "array":
		l, ok := val.([]any)
		if !ok {
			bad("not an array")
			return
		}
		if n, ok := c08Int(sch, "maxItems"); ok && len(l) > n {
			bad("%d items, maxItems %d", len(l), n)
		}
		if n, ok := c08Int(sch, "minItems"); ok && len(l) < n {
			bad("%d items, minItems %d", len(l), n)
		}
		if lt, _ := sch["x-kubernetes-list-type"].(string); lt == "map" {
			keys, _ := sch["x-kubernetes-list-map-keys"].([]any)
			seen := map[string]bool{}
			for _, it := range l {
				m, _ := it.(map[string]any)
				parts := make([]string, 0, len(keys))
				for _, k := range keys {
					parts = append(parts, fmt.Sprint(m[k.(string)]))
				}
				key := strings.Join(parts, "\x00")
				if seen[key] {
					bad("duplicate list-map key %q", key)
				}
				seen[key] = true
			}
		}
		if is, ok := sch["items"].(map[string]any); ok {
			for i, it := range l {
				c08Walk(is, it, fmt.Sprintf("%s[%d]", path, i), errs)
			}
		}
	case "string":
		s, ok := val.(string)
		if !ok {
			bad("not a string")
			return
		}
		n := utf8.RuneCountInString(s)
		if m, ok := c08Int(sch, "maxLength"); ok && n > m {
			bad("length %d, maxLength %d", n, m)
		}
		if m, ok := c08Int(sch, "minLength"); ok && n < m {
			bad("length %d, minLength %d", n, m)
		}
		if p, ok := sch["pattern"].(string); ok && !c08Match(p, s) {
			bad("%q does not match %s", c08Short(s), p)
		}
		if en, ok := sch["enum"].([]any); ok {
			found := false
			for _, e := range en {
				if e == s {
					found = true
				}
			}
			if !found {
				bad("%q not in enum", s)
			}
		}
		if f, _ := sch["format"].(string); f == "date-time" {
			if _, err := time.Parse(time.RFC3339, s); err != nil {
				bad("not a date-time")
			}
		}
	case "integer":
		f, ok := val.(float64)
		if !ok || f != float64(int64(f)) {
			bad("not an integer")
			return
		}
		if m, ok := c08Int(sch, "maximum"); ok && int(f) > m {
			bad("%v above maximum %d", f, m)
		}
		if m, ok := c08Int(sch, "minimum"); ok && int(f) < m {
			bad("%v below minimum %d", f, m)
		}
	case "boolean":
		if _, ok := val.(bool); !ok {
			bad("not a boolean")
		}
	}
}

// validate returns the structural violations of obj.status against the CRD of kind/version.
func (c *c08CRDs) validate(kindVersion string, obj client.Object) []string {
	sch, ok := c.status[kindVersion]
	if !ok {
		panic("c08: no CRD status schema for " + kindVersion)
	}
	raw, err := json.Marshal(obj)
	if err != nil {
		panic(err)
	}
	var m map[string]any
	if err := json.Unmarshal(raw, &m); err != nil {
		panic(err)
	}
	st, present := m["status"]
	if !present {
		st = map[string]any{}
	}
	var errs []string
	c08Walk(sch, st, "status", &errs)
	return errs
}

func c08Sub(m map[string]any, path ...string) map[string]any {
	cur := m
	for _, p := range path {
		var next map[string]any
		if p == "[]" {
			next, _ = cur["items"].(map[string]any)
		} else {
			props, _ := cur["properties"].(map[string]any)
			next, _ = props[p].(map[string]any)
		}
		if next == nil {
			panic(fmt.Sprintf("c08: CRD schema has no %v", path))
		}
		cur = next
	}
	return cur
}

type c08Limits struct {
	Entries, Conds, Msg, Reason, Lsts, Addrs, Kinds int
}

const c08ReasonPattern = `^[A-Za-z]([A-Za-z0-9_,:]*[A-Za-z0-9_])?$`

// limits reads the numeric limits the Coq oracle checks from the CRD of the kind.
func (c *c08CRDs) limits(kindVersion, entriesField string) c08Limits {
	st := c.status[kindVersion]
	if st == nil {
		panic("c08: no CRD status schema for " + kindVersion)
	}
	must := func(m map[string]any, k string) int {
		n, ok := c08Int(m, k)
		if !ok {
			panic(fmt.Sprintf("c08: %s: no %s in CRD schema", kindVersion, k))
		}
		return n
	}
	var lim c08Limits
	var conds map[string]any
	if entriesField != "" {
		lim.Entries = must(c08Sub(st, entriesField), "maxItems")
		conds = c08Sub(st, entriesField, "[]", "conditions")
	} else {
		conds = c08Sub(st, "conditions")
		if kindVersion == "Gateway/v1" {
			lim.Lsts = must(c08Sub(st, "listeners"), "maxItems")
			lim.Addrs = must(c08Sub(st, "addresses"), "maxItems")
			lim.Kinds = must(c08Sub(st, "listeners", "[]", "supportedKinds"), "maxItems")
		}
	}
	lim.Conds = must(conds, "maxItems")
	lim.Msg = must(c08Sub(conds, "[]", "message"), "maxLength")
	reason := c08Sub(conds, "[]", "reason")
	lim.Reason = must(reason, "maxLength")
	if p, _ := reason["pattern"].(string); p != c08ReasonPattern {
		panic(fmt.Sprintf("c08: %s: the CRD's reason pattern is %q, the Coq checker reason_ok implements %q — update it",
			kindVersion, p, c08ReasonPattern))
	}
	return lim
}
