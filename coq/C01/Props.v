(* C01 — property theorems. The change processor is modelled generically (C01/Model.v); the theorems hold for
   every store, event type and graph builder that satisfy the frame condition, for every history and batching.
   PARTIAL: that the real BuildGraph with the real relevance predicates satisfies [frame] is not proved (there is
   no Coq model of BuildGraph); it is what the correspondence harness validates (long-lived vs fresh). *)
From Coq Require Import List.
From NGF Require Import C01.Model C01.Proofs.
Import ListNotations.

Theorem C01_processor_invariant :
  forall (St Ev G : Type) (build : St -> G) (upd : St -> Ev -> St) (relevant : G -> St -> Ev -> bool),
  (forall s e, relevant (build s) s e = false -> build (upd s e) = build s) ->
  forall s0 batches,
  let p := run St Ev G build upd relevant s0 batches in
  dirty St G p = false /\ latest St G p = build (store St G p) /\ store St G p = store_after St Ev upd s0 batches.
Proof. exact run_invariant. Qed.

Theorem C01_converge :
  forall (St Ev G : Type) (build : St -> G) (upd : St -> Ev -> St) (relevant : G -> St -> Ev -> bool),
  (forall s e, relevant (build s) s e = false -> build (upd s e) = build s) ->
  forall s0 batches1 batches2,
  store_after St Ev upd s0 batches1 = store_after St Ev upd s0 batches2 ->
  latest St G (run St Ev G build upd relevant s0 batches1) = latest St G (run St Ev G build upd relevant s0 batches2).
Proof. exact converge. Qed.

Theorem C01_batching_irrelevant :
  forall (St Ev G : Type) (build : St -> G) (upd : St -> Ev -> St) (relevant : G -> St -> Ev -> bool),
  (forall s e, relevant (build s) s e = false -> build (upd s e) = build s) ->
  forall s0 batches,
  latest St G (run St Ev G build upd relevant s0 batches) = latest St G (run St Ev G build upd relevant s0 [concat batches]).
Proof. exact batching_irrelevant. Qed.
