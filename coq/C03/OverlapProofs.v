(* Proofs about the attachment of policies to Routes (C03/Overlap.v). *)
From Coq Require Import List String ZArith Bool Arith Lia.
From NGF Require Import lib.Str lib.Order C03.Overlap.
Import ListNotations.

Lemma lkey_eqb_eq a b : lkey_eqb a b = true <-> a = b.
Proof.
  destruct a as [[h1 p1] q1], b as [[h2 p2] q2]. simpl. split.
  - intros H. apply andb_true_iff in H. destruct H as [H Hq]. apply andb_true_iff in H. destruct H as [Hh Hp].
    apply seqb_eq in Hh, Hq. apply Z.eqb_eq in Hp. subst. reflexivity.
  - intros H. inversion H; subst. rewrite !seqb_refl, Z.eqb_refl. reflexivity.
Qed.

Lemma mem_key_In k l : mem_key k l = true <-> In k l.
Proof.
  unfold mem_key. rewrite existsb_exists. split.
  - intros [x [Hx He]]. apply lkey_eqb_eq in He. subst. exact Hx.
  - intros H. exists k. split; [exact H|]. apply lkey_eqb_eq. reflexivity.
Qed.

(* two Routes overlap exactly when some location has a match of both *)
Lemma overlaps_spec ls a b : overlaps ls a b = true <-> exists k, In k (keys ls a) /\ In k (keys ls b).
Proof.
  unfold overlaps. rewrite existsb_exists. split.
  - intros [k [Ha Hb]]. exists k. split; [exact Ha|]. apply mem_key_In. exact Hb.
  - intros [k [Ha Hb]]. exists k. split; [exact Ha|]. apply mem_key_In. exact Hb.
Qed.

Lemma overlaps_sym ls a b : overlaps ls a b = overlaps ls b a.
Proof.
  destruct (overlaps ls a b) eqn:H1; destruct (overlaps ls b a) eqn:H2; try reflexivity.
  - apply overlaps_spec in H1. destruct H1 as [k [Ha Hb]].
    assert (H : overlaps ls b a = true) by (apply overlaps_spec; exists k; split; assumption). congruence.
  - apply overlaps_spec in H2. destruct H2 as [k [Hb Ha]].
    assert (H : overlaps ls a b = true) by (apply overlaps_spec; exists k; split; assumption). congruence.
Qed.

(* what acceptance by the overlap check means *)
Lemma overlap_free_spec ls routes p :
  overlap_free ls routes p = true <->
  forall t r, In t routes -> In r routes -> targets_route p t = true -> overlaps ls t r = true -> targets_route p r = true.
Proof.
  unfold overlap_free. rewrite forallb_forall. split.
  - intros H t r Ht Hr Htt Hov. specialize (H t Ht). rewrite Htt in H. simpl in H.
    rewrite forallb_forall in H. specialize (H r Hr). rewrite Hov in H. simpl in H.
    rewrite orb_false_r in H. exact H.
  - intros H t Ht. destruct (targets_route p t) eqn:Htt; [simpl|reflexivity].
    apply forallb_forall. intros r Hr. destruct (targets_route p r) eqn:Hrr; [reflexivity|simpl].
    destruct (overlaps ls t r) eqn:Hov; [|reflexivity].
    rewrite (H t r Ht Hr Htt Hov) in Hrr. discriminate.
Qed.

(* THE property of the check. Whenever a location k has a match of a Route targeted by an accepted policy p, every Route
   with a match on k is targeted by p: the include files a location collects come from policies that all target all the
   Routes of the location. *)
Theorem location_routes_all_targeted ls routes p k t r :
  overlap_free ls routes p = true ->
  In t routes -> In r routes -> targets_route p t = true ->
  In k (keys ls t) -> In k (keys ls r) -> targets_route p r = true.
Proof.
  intros Hp Ht Hr Htt Hkt Hkr. apply (proj1 (overlap_free_spec ls routes p) Hp t r Ht Hr Htt).
  apply overlaps_spec. exists k. split; assumption.
Qed.

(* ... hence two accepted policies that both reach a location have a common target there (every Route of the location),
   which is the situation conflict resolution between policies of one kind decides *)
Theorem policies_of_a_location_share_every_route ls routes p q k tp tq :
  overlap_free ls routes p = true -> overlap_free ls routes q = true ->
  In tp routes -> In tq routes -> targets_route p tp = true -> targets_route q tq = true ->
  In k (keys ls tp) -> In k (keys ls tq) ->
  forall r, In r routes -> In k (keys ls r) -> targets_route p r = true /\ targets_route q r = true.
Proof.
  intros Hp Hq Htp Htq Hpt Hqt Hkp Hkq r Hr Hkr. split.
  - exact (location_routes_all_targeted ls routes p k tp r Hp Htp Hr Hpt Hkp Hkr).
  - exact (location_routes_all_targeted ls routes q k tq r Hq Htq Hr Hqt Hkq Hkr).
Qed.

(* ---- the key computations before the repairs admit two policies with different targets into one location *)

Definition d44_listeners : list (string * Z) := [("l0", 80%Z); ("l1", 443%Z)]%string.
Definition d44_r0 := ORoute "r0" [("l0", ["example.com"]); ("l1", ["example.com"])]%string ["/tea"]%string.
Definition d44_r1 := ORoute "r1" [("l0", ["example.com"])]%string ["/tea"]%string.
Definition d44_p0 := OPol "cspr0" ["r0"]%string true true false.
Definition d44_p1 := OPol "cspr1" ["r1"]%string true true false.

Lemma one_port_keys_refuted :
  exists ls routes p q k tp tq,
    overlap_free_with (keys_one_port ls) routes p = true /\ overlap_free_with (keys_one_port ls) routes q = true /\
    In tp routes /\ In tq routes /\ targets_route p tp = true /\ targets_route q tq = true /\
    In k (keys ls tp) /\ In k (keys ls tq) /\ targets_route p tq = false.
Proof.
  exists d44_listeners, [d44_r0; d44_r1], d44_p0, d44_p1, ("example.com"%string, 80%Z, "/tea"%string), d44_r0, d44_r1.
  repeat split; try (vm_compute; reflexivity); simpl; auto.
Qed.

Definition d42_listeners : list (string * Z) := [("l1", 80%Z); ("l2", 80%Z)]%string.
Definition d42_r1 := ORoute "r1" [("l2", ["a.foo.example.com"])]%string ["/"]%string.
Definition d42_r2 := ORoute "r2" [("l1", ["*.foo.example.com"; "a.foo.example.com"])]%string ["/"]%string.
Definition d42_p1 := OPol "cspr1" ["r1"]%string true true false.
Definition d42_p2 := OPol "cspr2" ["r2"]%string true true false.

Lemma listwise_keys_refuted :
  exists ls routes p q k tp tq,
    overlap_free_with (keys_listwise ls) routes p = true /\ overlap_free_with (keys_listwise ls) routes q = true /\
    In tp routes /\ In tq routes /\ targets_route p tp = true /\ targets_route q tq = true /\
    In k (keys ls tp) /\ In k (keys ls tq) /\ targets_route p tq = false.
Proof.
  exists d42_listeners, [d42_r1; d42_r2], d42_p1, d42_p2, ("a.foo.example.com"%string, 80%Z, "/"%string), d42_r1, d42_r2.
  repeat split; try (vm_compute; reflexivity); simpl; auto.
Qed.

(* the repaired check decides those two states the other way, and its premises are met by them *)
Example repaired_check_denies :
  overlap_free d44_listeners [d44_r0; d44_r1] d44_p0 = false /\ overlap_free d42_listeners [d42_r1; d42_r2] d42_p1 = false /\
  overlap_free d44_listeners [d44_r0] d44_p0 = true.
Proof. vm_compute. auto. Qed.
