(* C16 — "a rule whose backends disagree on TLS policy serves none of them"
   (graph/backend_refs.go: validateBackendTLSPolicyMatchingAllBackends with checkPoliciesEqual, and
    nginx/config/servers.go: createProxyTLSFromBackends, which takes the settings of the first valid backend that has any).

   A location has ONE set of upstream-verification directives (proxy_ssl_trusted_certificate, proxy_ssl_name), so the
   policies of all the backends of a rule must mean the same verification. A policy as the check reads it: its
   namespace, the CA references as written (group, kind, name: LOCAL references), the well-known setting, the hostname. *)
From Coq Require Import List String ZArith Bool Arith.
From NGF Require Import lib.Str.
Import ListNotations.

Record tpol := TPol {
  tp_ns : string;
  tp_refs : list (string * string * string);     (* group, kind, name *)
  tp_wellknown : option string;
  tp_host : string
}.

Definition ref_eqb (a b : string * string * string) : bool :=
  let '(g1, k1, n1) := a in let '(g2, k2, n2) := b in seqb g1 g2 && seqb k1 k2 && seqb n1 n2.

Fixpoint refs_eqb (a b : list (string * string * string)) : bool :=
  match a, b with
  | [], [] => true
  | x :: a', y :: b' => ref_eqb x y && refs_eqb a' b'
  | _, _ => false
  end.

Definition opt_str_eqb (a b : option string) : bool :=
  match a, b with None, None => true | Some x, Some y => seqb x y | _, _ => false end.

(* checkPoliciesEqual returns true when the policies DIFFER (sic); [differ] has the same sense *)
Definition differ (p1 p2 : tpol) : bool :=
  (negb (match tp_refs p1 with [] => true | _ => false end) && negb (seqb (tp_ns p1) (tp_ns p2))) ||
  negb (refs_eqb (tp_refs p1) (tp_refs p2)) ||
  negb (opt_str_eqb (tp_wellknown p1) (tp_wellknown p2)) ||
  negb (seqb (tp_host p1) (tp_host p2)).

(* the loop, with its three pieces of state *)
Fixpoint mismatch_loop (reference : option tpol) (seen_without : bool) (bs : list (option tpol)) : bool :=
  match bs with
  | [] => false
  | None :: bs' => match reference with Some _ => true | None => mismatch_loop reference true bs' end
  | Some p :: bs' =>
      if seen_without then true
      else match reference with
           | None => mismatch_loop (Some p) seen_without bs'
           | Some q => if differ p q then true else mismatch_loop reference seen_without bs'
           end
  end.

Definition mismatch (bs : list (option tpol)) : bool := mismatch_loop None false bs.

(* what a policy means for the connection: which CA material verifies the peer, and the name expected in its certificate.
   The ConfigMaps are identified by the namespace of the policy and the reference. *)
Definition meaning (p : tpol) : (list (string * (string * string * string)) * option string * string) :=
  (map (fun r => (tp_ns p, r)) (tp_refs p), tp_wellknown p, tp_host p).

Definition bmeaning (b : option tpol) := option_map meaning b.

(* createProxyTLSFromBackends: the first backend with settings decides for the location *)
Fixpoint first_policy (bs : list (option tpol)) : option tpol :=
  match bs with [] => None | Some p :: _ => Some p | None :: bs' => first_policy bs' end.

(* ---- the comparison before the repair of D43 (references compared as written) *)
Definition differ_as_written (p1 p2 : tpol) : bool :=
  negb (refs_eqb (tp_refs p1) (tp_refs p2)) ||
  negb (opt_str_eqb (tp_wellknown p1) (tp_wellknown p2)) ||
  negb (seqb (tp_host p1) (tp_host p2)).
