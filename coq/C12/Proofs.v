(* C12 — proofs.  Part A: Reload; Part N: the NGINX transition system; Part B: the handler;
   Part S: handler and NGINX together.  Each theorem is followed by an Example showing that its
   hypotheses are satisfiable by a concrete, non-trivial instance. *)
From Coq Require Import List ZArith String Ascii Bool Arith Lia Sorted.
From NGF Require Import C12.Model C12.Spec.
Import ListNotations.
Local Open Scope Z_scope.

(* ================================================================ Part A: Reload *)

Lemma poll_stat_true l k :
  poll_stat l = (true, k) -> exists pre, firstn k l = pre ++ [StOk] /\ Forall (eq StMissing) pre.
Proof.
  revert k. induction l as [|a l IH]; intros k H; simpl in H; [discriminate|].
  destruct a.
  - inversion H; subst. exists []. simpl. split; [reflexivity|constructor].
  - destruct (poll_stat l) as [r n] eqn:E. inversion H; subst.
    destruct (IH n eq_refl) as [pre [H1 H2]].
    exists (StMissing :: pre). simpl. rewrite H1. split; [reflexivity|constructor; auto].
  - discriminate.
Qed.

Lemma poll_children_true prev l k :
  poll_children prev l = (true, k) ->
  exists pre c, firstn k l = pre ++ [RdOk c] /\ Forall (eq (RdOk prev)) pre /\ c <> prev.
Proof.
  revert k. induction l as [|a l IH]; intros k H; simpl in H; [discriminate|].
  destruct a as [c|]; [|discriminate].
  destruct (String.eqb_spec prev c) as [->|Hne].
  - destruct (poll_children c l) as [r n] eqn:E. inversion H; subst.
    destruct (IH n eq_refl) as [pre [c' [H1 [H2 H3]]]].
    exists (RdOk c :: pre), c'. simpl. rewrite H1. repeat split; auto.
  - inversion H; subst. exists [], c. simpl. repeat split; auto.
Qed.

Lemma poll_version_true v l k :
  poll_version v l = (true, k) ->
  exists pre a, firstn k l = pre ++ [a] /\ version_of a = Some v /\
                Forall (fun a' => exists n, version_of a' = Some n /\ n <> v) pre.
Proof.
  revert k. induction l as [|a l IH]; intros k H; simpl in H; [discriminate|].
  destruct (version_of a) as [n|] eqn:Ea; [|discriminate].
  destruct (Z.eqb_spec n v) as [->|Hne].
  - inversion H; subst. exists [], a. simpl. repeat split; auto.
  - destruct (poll_version v l) as [r m] eqn:E. inversion H; subst.
    destruct (IH m eq_refl) as [pre [a' [H1 [H2 H3]]]].
    exists (a :: pre), a'. simpl. rewrite H1. repeat split; auto.
    constructor; [exists n; auto|assumption].
Qed.

Lemma reload_ok_inv e v :
  o_res (reload e v) = Ok ->
  exists n c pid prev k m,
    poll_stat (e_stat e) = (true, n) /\ e_pidfile e = RdOk c /\ atoi (trim_space c) = Some pid /\
    e_children0 e = RdOk prev /\ e_kill e = true /\
    poll_children prev (e_children e) = (true, k) /\ poll_version v (e_versions e) = (true, m) /\
    reload e v = Out Ok (Some pid) n true true k m 1 0.
Proof.
  unfold reload.
  destruct (poll_stat (e_stat e)) as [[|] n] eqn:E1; [|simpl; discriminate].
  destruct (e_pidfile e) as [c|] eqn:E2; [|simpl; discriminate].
  destruct (atoi (trim_space c)) as [pid|] eqn:E3; [|simpl; discriminate].
  destruct (e_children0 e) as [prev|] eqn:E4; [|simpl; discriminate].
  destruct (e_kill e) eqn:E5; simpl; [|discriminate].
  destruct (poll_children prev (e_children e)) as [[|] k] eqn:E6; [|simpl; discriminate].
  destruct (poll_version v (e_versions e)) as [[|] m] eqn:E7; [|simpl; discriminate].
  intros _. exists n, c, pid, prev, k, m. repeat split; auto.
Qed.

Theorem reload_ok_evidence e v : o_res (reload e v) = Ok -> evidence e v (reload e v).
Proof.
  intros H. destruct (reload_ok_inv e v H) as [n [c [pid [prev [k [m [H1 [H2 [H3 [H4 [H5 [H6 [H7 H8]]]]]]]]]]]]].
  rewrite H8. constructor; simpl.
  - apply poll_stat_true; assumption.
  - exists c, pid; auto.
  - assumption.
  - destruct (poll_children_true _ _ _ H6) as [pre [c' [A [B C]]]]. exists prev, pre, c'; auto.
  - apply poll_version_true; assumption.
  - split; reflexivity.
Qed.

(* ---- every kind of misbehaviour of the outside world is reported as a failure *)

Lemma poll_stat_missing l : Forall (eq StMissing) l -> fst (poll_stat l) = false.
Proof.
  induction 1 as [|a l Ha _ IH]; simpl; [reflexivity|]. subst a.
  destruct (poll_stat l); simpl in *; assumption.
Qed.

Lemma poll_stat_err pre post : Forall (eq StMissing) pre -> fst (poll_stat (pre ++ StErr :: post)) = false.
Proof.
  induction 1 as [|a l Ha _ IH]; simpl; [reflexivity|]. subst a.
  destruct (poll_stat (l ++ StErr :: post)); simpl in *; assumption.
Qed.

Lemma poll_children_same prev l : Forall (eq (RdOk prev)) l -> fst (poll_children prev l) = false.
Proof.
  induction 1 as [|a l Ha _ IH]; simpl; [reflexivity|]. subst a.
  rewrite String.eqb_refl. destruct (poll_children prev l); simpl in *; assumption.
Qed.

Lemma poll_children_err prev pre post :
  Forall (eq (RdOk prev)) pre -> fst (poll_children prev (pre ++ RdErr :: post)) = false.
Proof.
  induction 1 as [|a l Ha _ IH]; simpl; [reflexivity|]. subst a.
  rewrite String.eqb_refl. destruct (poll_children prev (l ++ RdErr :: post)); simpl in *; assumption.
Qed.

Lemma poll_version_stale v l : Forall (fun a => version_of a <> Some v) l -> fst (poll_version v l) = false.
Proof.
  induction 1 as [|a l Ha _ IH]; simpl; [reflexivity|].
  destruct (version_of a) as [n|]; [|reflexivity].
  destruct (Z.eqb_spec n v) as [->|]; [congruence|].
  destruct (poll_version v l); simpl in *; assumption.
Qed.

Lemma poll_version_err v pre a post :
  version_of a = None -> Forall (fun a' => version_of a' <> Some v) pre ->
  fst (poll_version v (pre ++ a :: post)) = false.
Proof.
  intros Ha. induction 1 as [|b l Hb _ IH]; simpl.
  - rewrite Ha. reflexivity.
  - destruct (version_of b) as [n|]; [|reflexivity].
    destruct (Z.eqb_spec n v) as [->|]; [congruence|].
    destruct (poll_version v (l ++ a :: post)); simpl in *; assumption.
Qed.

Theorem reload_fault_not_ok e v : fault e v -> o_res (reload e v) <> Ok.
Proof.
  intros F H.
  destruct (reload_ok_inv e v H) as [n [c [pid [prev [k [m [H1 [H2 [H3 [H4 [H5 [H6 [H7 _]]]]]]]]]]]]].
  destruct F as [F|F|F|F|F|F|F|F|F|F].
  - apply poll_stat_missing in F. rewrite H1 in F. discriminate.
  - destruct F as [pre [post [E F]]]. rewrite E in H1.
    pose proof (poll_stat_err pre post F) as P. rewrite H1 in P. discriminate.
  - congruence.
  - specialize (F c H2). congruence.
  - congruence.
  - congruence.
  - specialize (F prev H4). apply poll_children_same in F. rewrite H6 in F. discriminate.
  - destruct (F prev H4) as [pre [post [E G]]]. rewrite E in H6.
    pose proof (poll_children_err prev pre post G) as P. rewrite H6 in P. discriminate.
  - apply (poll_version_stale v) in F. rewrite H7 in F. discriminate.
  - destruct F as [pre [a [post [E [Ha G]]]]]. rewrite E in H7.
    pose proof (poll_version_err v pre a post Ha G) as P. rewrite H7 in P. discriminate.
Qed.

(* a failed Reload before the signal signals nobody; a garbled pid file never leads to a signal *)
Theorem reload_garbled_pid_no_signal e v c :
  e_pidfile e = RdOk c -> atoi (trim_space c) = None ->
  o_kill (reload e v) = None /\ is_ok (o_res (reload e v)) = false.
Proof.
  intros H1 H2. unfold reload. destruct (poll_stat (e_stat e)) as [[|] n]; simpl; [|auto].
  rewrite H1, H2. simpl. auto.
Qed.

(* ---- non-vacuity: a late pid file, workers respawned at the second look, a stale answer, then v *)
Definition ex_env : env :=
  Env [StMissing; StOk] (RdOk " 4711
") (RdOk "101 102 ") true
      [RdOk "101 102 "; RdOk "201 202 "] [VResp 200 "6"; VResp 200 "7"].

Example ex_reload_ok : reload ex_env 7 = Out Ok (Some 4711) 2 true true 2 2 1 0.
Proof. vm_compute. reflexivity. Qed.

Example ex_evidence : evidence ex_env 7 (reload ex_env 7).
Proof. apply reload_ok_evidence. vm_compute. reflexivity. Qed.

Example ex_fault_stale : fault (Env [StOk] (RdOk "1") (RdOk "a") true [RdOk "b"] [VResp 200 "6"; VResp 200 "6"]) 7
                         /\ o_res (reload (Env [StOk] (RdOk "1") (RdOk "a") true [RdOk "b"] [VResp 200 "6"; VResp 200 "6"]) 7)
                            = Err SVersion.
Proof.
  split; [|vm_compute; reflexivity].
  apply F_stale. simpl. repeat constructor; vm_compute; discriminate.
Qed.

Example ex_garbled : o_res (reload (Env [StOk] (RdOk "12 34") (RdOk "a") true [RdOk "b"] [VResp 200 "7"]) 7) = Err SFindPid.
Proof. vm_compute. reflexivity. Qed.

Example ex_atoi : atoi "-0012" = Some (-12) /\ atoi "+" = None /\ atoi "9223372036854775808" = None /\
                  atoi "1_0" = None /\ trim_space (String (ascii_of_nat 9) " 5 ") = "5"%string.
Proof. vm_compute. repeat split; reflexivity. Qed.

(* ================================================================ Part N: NGINX *)

Lemma nstep_facts ng l ng' :
  nstep ng l ng' ->
  (forall n, In n (ng_alive ng') -> In n (ng_alive ng) \/ n = ng_loaded ng') /\
  (is_hup l = false -> ng_loaded ng' = ng_loaded ng).
Proof.
  intros H. inversion H; subst; simpl; split; intros; auto; try discriminate.
  - destruct H0; [right; auto|left; auto].
  - unfold remove_z in H0. apply filter_In in H0. left. tauto.
  - destruct H0; [right; auto|left; auto].
Qed.

Definition nohup (tr : list nlabel) : bool := forallb (fun l => negb (is_hup l)) tr.

Lemma tau_nohup tr : forallb is_tau tr = true -> nohup tr = true.
Proof.
  unfold nohup. induction tr as [|l tr IH]; simpl; [reflexivity|].
  intros H. apply andb_true_iff in H. destruct H as [H1 H2]. rewrite (IH H2).
  destruct l; simpl in *; try discriminate; reflexivity.
Qed.

Lemma nrun_nohup ng tr ng' :
  nrun ng tr ng' -> nohup tr = true ->
  ng_loaded ng' = ng_loaded ng /\
  (forall n, In n (ng_alive ng') -> In n (ng_alive ng) \/ n = ng_loaded ng) /\
  (forall a n, In a (answers_of tr) -> version_of a = Some n -> In n (ng_alive ng) \/ n = ng_loaded ng).
Proof.
  induction 1 as [ng|ng l ng1 tr ng2 Hs Hr IH]; intros Hn.
  - repeat split; auto. intros a n [].
  - simpl in Hn. apply andb_true_iff in Hn. destruct Hn as [Hl Ht].
    apply negb_true_iff in Hl.
    destruct (nstep_facts _ _ _ Hs) as [Fa Fl]. specialize (Fl Hl).
    destruct (IH Ht) as [I1 [I2 I3]].
    assert (Lift : forall n, In n (ng_alive ng1) \/ n = ng_loaded ng1 -> In n (ng_alive ng) \/ n = ng_loaded ng).
    { intros n [Hin|He]; [|right; congruence].
      destruct (Fa n Hin) as [?|?]; [left; auto|right; congruence]. }
    split; [congruence|]. split.
    + intros n Hin. apply Lift. apply I2. exact Hin.
    + intros a n Hin Hv. destruct l as [b ld|a'|]; simpl in Hin.
      * discriminate.
      * destruct Hin as [->|Hin].
        -- inversion Hs; subst.
           ++ left. match goal with Hq : version_of _ = Some ?x, Hi : In ?x _ |- _ =>
                                      rewrite Hq in Hv; inversion Hv; subst; exact Hi end.
           ++ congruence.
        -- apply Lift. eapply I3; eauto.
      * apply Lift. eapply I3; eauto.
Qed.

Lemma nrun_app_inv ng tr1 tr2 ng' :
  nrun ng (tr1 ++ tr2) ng' -> exists ng1, nrun ng tr1 ng1 /\ nrun ng1 tr2 ng'.
Proof.
  revert ng. induction tr1 as [|l tr1 IH]; intros ng H; simpl in H.
  - exists ng. split; [constructor|assumption].
  - inversion H; subst. destruct (IH _ H5) as [ngm [A B]].
    exists ngm. split; [econstructor; eauto|assumption].
Qed.

(* The central fact.  If Reload(v) reported success, NGINX behaved like the transition system while
   Reload ran, and no worker generation alive before carried version v, then the master runs v. *)
Theorem reload_truth e v ng tr ng' :
  nrun ng tr ng' -> trace_fits e (reload e v) tr ->
  ~ In v (ng_loaded ng :: ng_alive ng) ->
  o_res (reload e v) = Ok -> ng_loaded ng' = v.
Proof.
  intros Hrun Hfit Hfresh Hok.
  pose proof (reload_ok_evidence e v Hok) as Ev.
  destruct (ev_pid _ _ _ Ev) as [c [pid [_ [_ Hk]]]].
  unfold trace_fits in Hfit. rewrite Hk in Hfit.
  destruct Hfit as [pre [ld [post [Etr [Hpre [Hpost Hans]]]]]]. subst tr.
  destruct (nrun_app_inv _ _ _ _ Hrun) as [ng1 [R1 R2]].
  inversion R2 as [|? ? ng2 ? ? Hs R3]; subst.
  destruct (nrun_nohup _ _ _ R1 (tau_nohup _ Hpre)) as [L1 [A1 _]].
  destruct (nrun_nohup _ _ _ R3 Hpost) as [L3 [_ Ans3]].
  destruct (ev_version _ _ _ Ev) as [pv [a [Efn [Hv _]]]].
  assert (Hin : In a (answers_of post)).
  { rewrite Hans, Efn. apply in_or_app. right. left. reflexivity. }
  destruct (Ans3 a v Hin Hv) as [Hal|He]; [|congruence].
  destruct (nstep_facts _ _ _ Hs) as [Fa _].
  destruct (Fa v Hal) as [Hal1|He]; [|congruence].
  exfalso. apply Hfresh. destruct (A1 v Hal1) as [?|?]; [right; assumption|left; congruence].
Qed.

(* non-vacuity: master runs 6; HUP makes it load 7; an old worker still answers 6, a new one 7 *)
Definition ex_trace : list nlabel :=
  [LTau; LHup true (Some 7); LAnswer (VResp 200 "6"); LTau; LAnswer (VResp 200 "7")].

Example ex_nrun : nrun (Ng 6 [6]) ex_trace (Ng 7 [7]).
Proof.
  unfold ex_trace.
  eapply nrun_cons; [apply (ns_respawn (Ng 6 [6]))|]. simpl.
  eapply nrun_cons; [apply (ns_hup_load (Ng 6 [6; 6]) 7)|]. simpl.
  eapply nrun_cons; [apply (ns_answer_num (Ng 7 [7; 6; 6]) 200 "6" 6); [vm_compute; reflexivity|simpl; auto]|].
  eapply nrun_cons; [apply (ns_retire (Ng 7 [7; 6; 6]) 6)|]. simpl.
  eapply nrun_cons; [apply (ns_answer_num (Ng 7 [7]) 200 "7" 7); [vm_compute; reflexivity|simpl; auto]|].
  constructor.
Qed.

Example ex_trace_fits : trace_fits ex_env (reload ex_env 7) ex_trace.
Proof.
  rewrite ex_reload_ok. simpl. exists [LTau], (Some 7), [LAnswer (VResp 200 "6"); LTau; LAnswer (VResp 200 "7")].
  repeat split; reflexivity.
Qed.

Example ex_truth : ng_loaded (Ng 7 [7]) = 7.
Proof.
  apply (reload_truth ex_env 7 (Ng 6 [6]) ex_trace); [apply ex_nrun|apply ex_trace_fits| |vm_compute; reflexivity].
  simpl. intros [H|[H|[]]]; discriminate.
Qed.

(* The freshness hypothesis is necessary (documented limit: version reuse across a control-plane
   restart).  Master runs an OLD configuration that happens to carry number 7; the new files are
   rejected, a worker is respawned (children change), the old worker answers 7: Reload(7) succeeds
   although the master does not run the configuration that was just written. *)
Example ex_reuse_limit :
  exists e tr ng', nrun (Ng 7 [7]) tr ng' /\ trace_fits e (reload e 7) tr /\ o_res (reload e 7) = Ok /\
                   ~ In (LHup true (Some 7)) tr.
Proof.
  exists (Env [StOk] (RdOk "1") (RdOk "101 ") true [RdOk "102 "] [VResp 200 "7"]),
         [LHup true None; LTau; LAnswer (VResp 200 "7")], (Ng 7 [7; 7]).
  split; [|split; [|split]].
  - eapply nrun_cons; [apply ns_hup_keep|].
    eapply nrun_cons; [apply (ns_respawn (Ng 7 [7]))|]. simpl.
    eapply nrun_cons; [apply (ns_answer_num (Ng 7 [7; 7]) 200 "7" 7); [vm_compute; reflexivity|simpl; auto]|].
    constructor.
  - vm_compute. exists [], None, [LTau; LAnswer (VResp 200 "7")]. repeat split; reflexivity.
  - vm_compute. reflexivity.
  - simpl. intros [H|[H|[H|[]]]]; discriminate.
Qed.

(* ================================================================ Part B: the handler *)

Lemma apply_none plus b :
  apply_conf plus b = None ->
  (writes plus (b_change b) = true -> b_write_ok b = true /\ b_reload_ok b = true) /\
  (plus = true -> b_plus_ok b = true).
Proof.
  unfold apply_conf, update_nginx_conf, update_upstreams.
  destruct (writes plus (b_change b)), (b_write_ok b), (b_reload_ok b), plus, (b_plus_ok b);
    simpl; intros H; try discriminate; auto.
Qed.

(* a failure at any stage is surfaced and leaves readiness as it was *)
Theorem hstep_surfaced plus s b f :
  applies b = true -> apply_conf plus b = Some f ->
  let '(s', o) := hstep plus s b in
  ho_status o = Some true /\ h_lasterr s' = true /\ h_ready s' = h_ready s /\ ho_ready o = h_ready s.
Proof.
  unfold applies, hstep. intros Ha Hf.
  destruct (b_change b); try discriminate; rewrite Hf; simpl; auto.
Qed.

(* statuses without the not-programmed mark are only issued when every stage succeeded *)
Theorem hstep_honest plus s b :
  ho_status (snd (hstep plus s b)) = Some false ->
  applies b = true /\ apply_conf plus b = None /\
  (forall v, ho_reloaded (snd (hstep plus s b)) = Some v ->
             v = h_version s + 1 /\ ho_written (snd (hstep plus s b)) = Some v /\
             b_write_ok b = true /\ b_reload_ok b = true).
Proof.
  unfold applies, hstep.
  destruct (b_change b) eqn:Ec; simpl; [discriminate| |].
  all: destruct (apply_conf plus b) eqn:Ea; simpl; intros H; try discriminate.
  all: split; [reflexivity|]; split; [reflexivity|].
  all: intros v Hv; destruct (apply_none plus b Ea) as [W _]; rewrite Ec in W.
  all: simpl in W; destruct plus; simpl in *; try discriminate.
  all: destruct (W eq_refl) as [W1 W2]; rewrite W1 in Hv; simpl in Hv; inversion Hv; subst; auto.
Qed.

(* ---- versions *)

Lemma hstep_version plus s b :
  h_version s <= h_version (fst (hstep plus s b)) /\
  (forall v, ho_built (snd (hstep plus s b)) = Some v -> v = h_version s + 1 /\ h_version (fst (hstep plus s b)) = v) /\
  (forall v, ho_written (snd (hstep plus s b)) = Some v -> ho_built (snd (hstep plus s b)) = Some v) /\
  (forall v, ho_reloaded (snd (hstep plus s b)) = Some v -> ho_written (snd (hstep plus s b)) = Some v).
Proof.
  unfold hstep. destruct (b_change b); destruct plus; simpl; repeat split; intros; try lia; try discriminate;
    repeat match goal with H : Some _ = Some _ |- _ => inversion H; subst; clear H end;
    try lia; auto; destruct (b_write_ok b); simpl in *; try discriminate; auto.
Qed.

Lemma hrun_cons plus s b bs :
  hrun plus s (b :: bs) =
  (fst (hrun plus (fst (hstep plus s b)) bs), snd (hstep plus s b) :: snd (hrun plus (fst (hstep plus s b)) bs)).
Proof.
  simpl. destruct (hstep plus s b) as [s1 o]. simpl. destruct (hrun plus s1 bs). reflexivity.
Qed.

Theorem versions_strict plus s bs :
  StronglySorted Z.lt (versions_of (snd (hrun plus s bs))) /\
  Forall (fun v => h_version s < v) (versions_of (snd (hrun plus s bs))) /\
  Forall (fun o => (forall v, ho_written o = Some v -> ho_built o = Some v) /\
                   (forall v, ho_reloaded o = Some v -> ho_written o = Some v))
         (snd (hrun plus s bs)).
Proof.
  revert s. induction bs as [|b bs IH]; intros s.
  - simpl. repeat split; constructor.
  - rewrite hrun_cons. simpl snd.
    destruct (hstep_version plus s b) as [Hle [Hb [Hw Hr]]].
    destruct (IH (fst (hstep plus s b))) as [I1 [I2 I3]].
    unfold versions_of in *. simpl flat_map.
    assert (Hlt : Forall (fun v => h_version s < v)
                         (flat_map (fun o => opt_list (ho_built o)) (snd (hrun plus (fst (hstep plus s b)) bs)))).
    { eapply Forall_impl; [|exact I2]. simpl. intros; lia. }
    split; [|split].
    + destruct (ho_built (snd (hstep plus s b))) as [v|] eqn:E; simpl; [|assumption].
      destruct (Hb v eq_refl) as [Hv1 Hv2]. constructor; [assumption|].
      rewrite Hv2 in I2. exact I2.
    + destruct (ho_built (snd (hstep plus s b))) as [v|] eqn:E; simpl; [|assumption].
      destruct (Hb v eq_refl) as [Hv1 Hv2]. constructor; [lia|assumption].
    + constructor; [split; assumption|assumption].
Qed.

(* ---- readiness latch and "which apply do the statuses speak of" *)

Lemma snoc_split {A} (l : list A) (x : A) (p : list A) (y : A) (q : list A) :
  l ++ [x] = p ++ y :: q -> (q = [] /\ p = l /\ y = x) \/ (exists q', q = q' ++ [x] /\ l = p ++ y :: q').
Proof.
  intros H. induction q as [|z q' _] using rev_ind.
  - left. apply app_inj_tail in H. destruct H; subst. auto.
  - right. exists q'. rewrite app_comm_cons, app_assoc in H.
    apply app_inj_tail in H. destruct H as [H1 H2]. subst. auto.
Qed.

Lemma ready_spec_snoc plus pre b :
  ready_spec plus (pre ++ [b]) <->
  ready_spec plus pre \/ succeeds plus b = true \/ (applies b = false /\ no_failure plus pre = true).
Proof.
  unfold ready_spec. split.
  - intros [p [y [q [E H]]]]. destruct (snoc_split _ _ _ _ _ E) as [[-> [-> ->]]|[q' [-> ->]]].
    + right. exact H.
    + left. exists p, y, q'. split; [reflexivity|exact H].
  - intros [[p [y [q [-> H]]]]|H].
    + exists p, y, (q ++ [b]). split; [rewrite <- app_assoc; reflexivity|exact H].
    + exists pre, b, []. split; [reflexivity|exact H].
Qed.

Lemma last_apply_failed_snoc plus pre b :
  last_apply_failed plus (pre ++ [b]) <->
  fails plus b = true \/ (applies b = false /\ last_apply_failed plus pre).
Proof.
  unfold last_apply_failed. split.
  - intros [p [y [q [E [F G]]]]]. destruct (snoc_split _ _ _ _ _ E) as [[-> [-> ->]]|[q' [-> ->]]].
    + left. exact F.
    + right. rewrite forallb_app in G. apply andb_true_iff in G. destruct G as [G1 G2].
      simpl in G2. rewrite andb_true_r in G2. apply negb_true_iff in G2.
      split; [exact G2|]. exists p, y, q'. auto.
  - intros [F|[Ha [p [y [q [-> [F G]]]]]]].
    + exists pre, b, []. auto.
    + exists p, y, (q ++ [b]). split; [rewrite <- app_assoc; reflexivity|]. split; [exact F|].
      rewrite forallb_app, G. simpl. rewrite Ha. reflexivity.
Qed.

Definition hinv (plus : bool) (pre : list batch) (s : hstate) : Prop :=
  (h_ready s = true <-> ready_spec plus pre) /\
  (h_ready s = false -> (h_fbe s = false <-> no_failure plus pre = true)) /\
  (h_lasterr s = true <-> last_apply_failed plus pre).

Lemma hinv_init plus : hinv plus [] hinit.
Proof.
  unfold hinv, hinit; simpl. split; [|split].
  - split; [discriminate|]. intros [p [y [q [E _]]]]. destruct p; discriminate.
  - intros _. split; reflexivity.
  - split; [discriminate|]. intros [p [y [q [E _]]]]. destruct p; discriminate.
Qed.

Lemma no_failure_snoc plus pre b : no_failure plus (pre ++ [b]) = no_failure plus pre && negb (fails plus b).
Proof. unfold no_failure. rewrite forallb_app. simpl. rewrite andb_true_r. reflexivity. Qed.

Lemma hinv_step plus pre s b : hinv plus pre s -> hinv plus (pre ++ [b]) (fst (hstep plus s b)).
Proof.
  unfold hinv. intros [I1 [I2 I3]].
  rewrite ready_spec_snoc, last_apply_failed_snoc, no_failure_snoc.
  unfold hstep, succeeds, fails, applies in *.
  destruct (no_failure plus pre) eqn:En;
  destruct (h_ready s) eqn:Er; destruct (h_fbe s) eqn:Ef; destruct (h_lasterr s) eqn:El;
  destruct (b_change b) eqn:Ec; try (destruct (apply_conf plus b) eqn:Ea); simpl;
  repeat split; intros; try tauto; try discriminate; try congruence;
  repeat match goal with
         | H : _ \/ _ |- _ => destruct H
         | H : _ /\ _ |- _ => destruct H
         end; try tauto; try discriminate; try congruence;
  try (left; tauto); try (right; tauto); intuition congruence.
Qed.

Lemma hinv_run plus pre s bs : hinv plus pre s -> hinv plus (pre ++ bs) (fst (hrun plus s bs)).
Proof.
  revert pre s. induction bs as [|b bs IH]; intros pre s H.
  - simpl. rewrite app_nil_r. exact H.
  - rewrite hrun_cons. simpl fst.
    replace (pre ++ b :: bs) with ((pre ++ [b]) ++ bs) by (rewrite <- app_assoc; reflexivity).
    apply IH. apply hinv_step. exact H.
Qed.

Theorem ready_latch plus bs :
  (h_ready (fst (hrun plus hinit bs)) = true <-> ready_spec plus bs) /\
  (forall more, h_ready (fst (hrun plus hinit bs)) = true -> h_ready (fst (hrun plus hinit (bs ++ more))) = true).
Proof.
  pose proof (hinv_run plus [] hinit bs (hinv_init plus)) as [H _]. simpl in H.
  split; [exact H|].
  intros more Hr.
  pose proof (hinv_run plus [] hinit (bs ++ more) (hinv_init plus)) as [H' _]. simpl in H'.
  apply H'. apply H in Hr. destruct Hr as [p [y [q [-> Hq]]]].
  exists p, y, (q ++ more). split; [rewrite <- app_assoc; reflexivity|exact Hq].
Qed.

(* readyz right after a batch is the latch *)
Lemma hstep_ready_out plus s b : ho_ready (snd (hstep plus s b)) = h_ready (fst (hstep plus s b)).
Proof. unfold hstep. destruct (b_change b); simpl; reflexivity. Qed.

(* the Gateway statuses issued for an NGF Service event speak of the most recent apply *)
Theorem svc_status_truth plus pre b flag :
  ho_svc (snd (hstep plus (fst (hrun plus hinit pre)) b)) = Some flag ->
  (flag = true <-> last_apply_failed plus pre).
Proof.
  pose proof (hinv_run plus [] hinit pre (hinv_init plus)) as [_ [_ H]]. simpl in H.
  unfold hstep. destruct (b_change b); simpl; destruct (b_svc b); intros E; try discriminate;
    inversion E; subst; exact H.
Qed.

(* non-vacuity for the handler theorems: fail, no change, succeed (Plus), fail at the Plus API *)
Definition ex_batches : list batch :=
  [Batch false ClusterState true false true; Batch true NoChange true true true;
   Batch true EndpointsOnly true true true; Batch false ClusterState true true false].

Example ex_hrun :
  snd (hrun true hinit ex_batches) =
  [HO None (Some 1) (Some 1) (Some 1) (Some true) false;
   HO (Some true) None None None None false;
   HO (Some true) (Some 2) None None (Some false) true;
   HO None (Some 3) (Some 3) (Some 3) (Some true) true].
Proof. vm_compute. reflexivity. Qed.

Example ex_ready_spec : ready_spec true ex_batches.
Proof.
  exists [Batch false ClusterState true false true; Batch true NoChange true true true],
         (Batch true EndpointsOnly true true true), [Batch false ClusterState true true false].
  split; [reflexivity|left; vm_compute; reflexivity].
Qed.

Example ex_not_ready_after_failure :
  ~ ready_spec false [Batch false ClusterState false true true; Batch false NoChange true true true].
Proof.
  intros H. apply (proj1 (ready_latch false _)) in H. vm_compute in H. discriminate.
Qed.

(* ================================================================ Part S: handler + NGINX *)

Lemma nstep_bound B ng l ng' :
  nstep ng l ng' -> (forall b d, l = LHup b (Some d) -> d <= B) ->
  ng_loaded ng <= B -> Forall (fun n => n <= B) (ng_alive ng) ->
  ng_loaded ng' <= B /\ Forall (fun n => n <= B) (ng_alive ng').
Proof.
  intros H Hl H1 H2. inversion H; subst; simpl; auto.
  - specialize (Hl true d eq_refl). split; [assumption|constructor; assumption].
  - split; [assumption|]. unfold remove_z. rewrite Forall_forall in *. intros x Hx.
    apply filter_In in Hx. apply H2. tauto.
Qed.

Lemma nrun_bound B ng tr ng' :
  nrun ng tr ng' -> (forall b d, In (LHup b (Some d)) tr -> d <= B) ->
  ng_loaded ng <= B -> Forall (fun n => n <= B) (ng_alive ng) ->
  ng_loaded ng' <= B /\ Forall (fun n => n <= B) (ng_alive ng').
Proof.
  induction 1 as [ng|ng l ng1 tr ng2 Hs Hr IH]; intros Hl H1 H2; [auto|].
  destruct (nstep_bound B _ _ _ Hs) as [A1 A2]; auto.
  - intros b d ->. apply (Hl b d). left. reflexivity.
  - apply IH; auto. intros b d Hin. apply (Hl b d). right. exact Hin.
Qed.

Lemma tau_no_hup_in tr : forallb is_tau tr = true -> forall b d, ~ In (LHup b d) tr.
Proof.
  intros H b d Hin. rewrite forallb_forall in H. specialize (H _ Hin). discriminate.
Qed.

Lemma Forall_le_weaken B B' l : B <= B' -> Forall (fun n => n <= B) l -> Forall (fun n => n <= B') l.
Proof. intros Hle. apply Forall_impl. intros; lia. Qed.

Definition sys_ok (p : hout * nginx) : Prop :=
  forall v, ho_status (fst p) = Some false -> ho_reloaded (fst p) = Some v -> ng_loaded (snd p) = v.

Theorem system_truth_gen plus s ng sbs outs :
  sys_run plus s ng sbs outs ->
  ng_loaded ng <= h_version s -> Forall (fun n => n <= h_version s) (ng_alive ng) ->
  Forall sys_ok outs.
Proof.
  induction 1 as [s ng|s ng sb s' o ng' rest outs Hstep Htr Hrun Hrest IH]; intros B1 B2; [constructor|].
  set (b := to_batch s sb) in *.
  assert (Es' : s' = fst (hstep plus s b)) by (rewrite Hstep; reflexivity).
  assert (Eo : o = snd (hstep plus s b)) by (rewrite Hstep; reflexivity).
  destruct (hstep_version plus s b) as [Hle _]. rewrite <- Es' in Hle.
  constructor.
  - (* this batch *)
    unfold sys_ok. simpl. intros v Hst Hrl. rewrite Eo in Hst, Hrl.
    destruct (hstep_honest plus s b Hst) as [Ha [Hap Hv]].
    destruct (Hv v Hrl) as [-> [Hwr [Hwok Hrok]]].
    assert (Hw : writes plus (sb_change sb) && sb_write_ok sb = true).
    { clear - Hrl. unfold hstep, b, to_batch in Hrl. simpl in Hrl.
      destruct (sb_change sb); simpl in *; try discriminate;
        destruct plus; simpl in *; try discriminate;
        destruct (sb_write_ok sb); simpl in *; try discriminate; reflexivity. }
    rewrite Hw in Htr. destruct Htr as [Hfit _].
    unfold b, to_batch in Hrok. simpl in Hrok.
    apply (reload_truth (sb_env sb) (h_version s + 1) ng (sb_trace sb) ng'); auto.
    + intros [Hl|Hin]; [lia|]. rewrite Forall_forall in B2. specialize (B2 _ Hin). simpl in B2. lia.
    + destruct (o_res (reload (sb_env sb) (h_version s + 1))); [reflexivity|discriminate].
  - (* the rest: the bound is preserved *)
    apply IH.
    + destruct (writes plus (sb_change sb) && sb_write_ok sb) eqn:Ew.
      * destruct Htr as [_ Hld].
        assert (Ev : h_version s' = h_version s + 1).
        { rewrite Es'. unfold hstep, b, to_batch. simpl.
          destruct (sb_change sb); simpl in *; try discriminate; reflexivity. }
        rewrite Ev. eapply (nrun_bound (h_version s + 1)); eauto; try lia.
        eapply Forall_le_weaken; [|exact B2]. lia.
      * eapply (nrun_bound (h_version s')); eauto; try lia.
        -- intros b0 d Hin. exfalso. eapply tau_no_hup_in; eauto.
        -- eapply Forall_le_weaken; [|exact B2]. lia.
    + destruct (writes plus (sb_change sb) && sb_write_ok sb) eqn:Ew.
      * destruct Htr as [_ Hld].
        assert (Ev : h_version s' = h_version s + 1).
        { rewrite Es'. unfold hstep, b, to_batch. simpl.
          destruct (sb_change sb); simpl in *; try discriminate; reflexivity. }
        rewrite Ev. eapply (nrun_bound (h_version s + 1)); eauto; try lia.
        eapply Forall_le_weaken; [|exact B2]. lia.
      * eapply (nrun_bound (h_version s')); eauto; try lia.
        -- intros b0 d Hin. exfalso. eapply tau_no_hup_in; eauto.
        -- eapply Forall_le_weaken; [|exact B2]. lia.
Qed.

(* non-vacuity: one batch, cluster change, files written, the Reload of ex_env/ex_trace; the handler
   reports "programmed" and the master indeed runs version 1 *)
Definition ex_env1 : env :=
  Env [StOk] (RdOk "4711") (RdOk "101 ") true [RdOk "201 "] [VResp 200 "0"; VResp 200 "1"].
Definition ex_trace1 : list nlabel :=
  [LHup true (Some 1); LAnswer (VResp 200 "0"); LAnswer (VResp 200 "1")].

Example ex_sys_run :
  sys_run false hinit (Ng 0 [0]) [SB false ClusterState true true ex_env1 ex_trace1]
          [(HO None (Some 1) (Some 1) (Some 1) (Some false) true, Ng 1 [1; 0])].
Proof.
  eapply sr_cons.
  - vm_compute. reflexivity.
  - simpl. split.
    + vm_compute. exists [], (Some 1), [LAnswer (VResp 200 "0"); LAnswer (VResp 200 "1")]. repeat split; reflexivity.
    + intros b d [H|[H|[H|[]]]]; inversion H; subst. vm_compute. discriminate.
  - unfold ex_trace1.
    eapply nrun_cons; [apply (ns_hup_load (Ng 0 [0]) 1)|]. simpl.
    eapply nrun_cons; [apply (ns_answer_num (Ng 1 [1; 0]) 200 "0" 0); [vm_compute; reflexivity|simpl; auto]|].
    eapply nrun_cons; [apply (ns_answer_num (Ng 1 [1; 0]) 200 "1" 1); [vm_compute; reflexivity|simpl; auto]|].
    constructor.
  - constructor.
Qed.
