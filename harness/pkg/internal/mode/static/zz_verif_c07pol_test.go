//go:build verif

package static

import (
	"context"
	"fmt"
	"strconv"
	"strings"
	"testing"

	metav1 "k8s.io/apimachinery/pkg/apis/meta/v1"
	"sigs.k8s.io/controller-runtime/pkg/client"
	gatewayv1 "sigs.k8s.io/gateway-api/apis/v1"
	"sigs.k8s.io/gateway-api/apis/v1alpha2"
	"sigs.k8s.io/gateway-api/apis/v1alpha3"

	ngfAPIv1alpha1 "github.com/nginx/nginx-gateway-fabric/apis/v1alpha1"
	ngfAPIv1alpha2 "github.com/nginx/nginx-gateway-fabric/apis/v1alpha2"
	"github.com/nginx/nginx-gateway-fabric/internal/framework/helpers"
	vu "github.com/nginx/nginx-gateway-fabric/internal/verifutil"
)

// c07PolDirected adds policies aimed at the corner cases of ancestor bookkeeping: a policy on the Gateway, one policy on two
// Routes (one of them possibly missing), two policies on one Route, a policy in another namespace than the Route of that name,
// generations above 1, and entries of other controllers already present.
func c07PolDirected(r *vu.Rng, c *vsCluster) []client.Object {
	var objs []client.Object
	gen := func() int64 { return int64(1 + r.Intn(4)) }
	foreign := func(n int) []v1alpha2.PolicyAncestorStatus {
		var out []v1alpha2.PolicyAncestorStatus
		for k := 0; k < n; k++ {
			out = append(out, v1alpha2.PolicyAncestorStatus{ControllerName: "example.com/other",
				AncestorRef: gatewayv1.ParentReference{Name: gatewayv1.ObjectName("other-gw-" + strconv.Itoa(k))},
				Conditions:  []metav1.Condition{{Type: "Accepted", Status: metav1.ConditionTrue, Reason: "Accepted", LastTransitionTime: metav1.Unix(1600000000, 0)}}})
		}
		return out
	}
	// how many entries other controllers left: often at the limit of 16 or one below it
	nForeign := func() int {
		switch r.Intn(3) {
		case 0:
			return 16
		case 1:
			return 15
		}
		return 1 + r.Intn(14)
	}
	op := func(ns, name string, targets [][2]string) *ngfAPIv1alpha2.ObservabilityPolicy {
		p := &ngfAPIv1alpha2.ObservabilityPolicy{ObjectMeta: metav1.ObjectMeta{Namespace: ns, Name: name, Generation: gen()},
			Spec: ngfAPIv1alpha2.ObservabilityPolicySpec{Tracing: &ngfAPIv1alpha2.Tracing{Strategy: ngfAPIv1alpha2.TraceStrategyParent}}}
		for _, t := range targets {
			p.Spec.TargetRefs = append(p.Spec.TargetRefs, v1alpha2.LocalPolicyTargetReference{Group: gatewayv1.GroupName, Kind: gatewayv1.Kind(t[0]), Name: gatewayv1.ObjectName(t[1])})
		}
		if r.Chance(1, 4) {
			p.Status.Ancestors = foreign(nForeign())
		}
		return p
	}
	csp := func(ns, name, kind, target string, body bool) *ngfAPIv1alpha1.ClientSettingsPolicy {
		p := &ngfAPIv1alpha1.ClientSettingsPolicy{ObjectMeta: metav1.ObjectMeta{Namespace: ns, Name: name, Generation: gen()},
			Spec: ngfAPIv1alpha1.ClientSettingsPolicySpec{TargetRef: v1alpha2.LocalPolicyTargetReference{Group: gatewayv1.GroupName, Kind: gatewayv1.Kind(kind), Name: gatewayv1.ObjectName(target)}}}
		if body {
			sz := ngfAPIv1alpha1.Size("10m")
			p.Spec.Body = &ngfAPIv1alpha1.ClientBody{MaxSize: &sz}
		} else {
			d := ngfAPIv1alpha1.Duration("5s")
			p.Spec.KeepAlive = &ngfAPIv1alpha1.ClientKeepAlive{Time: &d}
		}
		if r.Chance(1, 4) {
			p.Status.Ancestors = foreign(nForeign())
		}
		return p
	}
	kindOf := func(rt vsRoute) string {
		if rt.GRPC {
			return "GRPCRoute"
		}
		return "HTTPRoute"
	}
	for i, g := range c.Gateways {
		if r.Chance(1, 2) {
			objs = append(objs, csp(g.NS, fmt.Sprintf("d-cspg%d", i), "Gateway", g.Name, true))
		}
		if r.Chance(1, 4) {
			objs = append(objs, csp(g.NS, fmt.Sprintf("d-cspg%d-b", i), "Gateway", g.Name, r.Bool()))
		}
	}
	// a policy on two Services of one namespace (its ancestor is the Gateway: one entry, not one per Service)
	byNS := map[string][]string{}
	for _, sv := range c.Services {
		byNS[sv.NS] = append(byNS[sv.NS], sv.Name)
	}
	for _, ns := range []string{"default", "team-a", "team-b"} {
		if names := byNS[ns]; len(names) >= 2 && r.Chance(1, 2) {
			p := &ngfAPIv1alpha1.UpstreamSettingsPolicy{ObjectMeta: metav1.ObjectMeta{Namespace: ns, Name: "d-usp2", Generation: gen()},
				Spec: ngfAPIv1alpha1.UpstreamSettingsPolicySpec{ZoneSize: helpers.GetPointer(ngfAPIv1alpha1.Size("2m"))}}
			for _, n := range names[:2] {
				p.Spec.TargetRefs = append(p.Spec.TargetRefs, v1alpha2.LocalPolicyTargetReference{Group: "", Kind: "Service", Name: gatewayv1.ObjectName(n)})
			}
			if r.Chance(1, 3) {
				p.Status.Ancestors = foreign(nForeign())
			}
			objs = append(objs, p)
		}
	}
	for i, rt := range c.Routes {
		if r.Chance(1, 2) {
			targets := [][2]string{{kindOf(rt), rt.Name}}
			if i+1 < len(c.Routes) && c.Routes[i+1].NS == rt.NS && r.Bool() {
				targets = append(targets, [2]string{kindOf(c.Routes[i+1]), c.Routes[i+1].Name})
			}
			if r.Chance(1, 4) {
				targets = append(targets, [2]string{"HTTPRoute", "no-such-route"})
			}
			objs = append(objs, op(rt.NS, fmt.Sprintf("d-op%d", i), targets))
		}
		if r.Chance(1, 3) {
			objs = append(objs, csp(rt.NS, fmt.Sprintf("d-cspr%d-a", i), kindOf(rt), rt.Name, true), csp(rt.NS, fmt.Sprintf("d-cspr%d-b", i), kindOf(rt), rt.Name, r.Bool()))
		}
		if r.Chance(1, 6) {
			other := "team-b"
			if rt.NS == other {
				other = "default"
			}
			objs = append(objs, csp(other, fmt.Sprintf("d-cspx%d", i), kindOf(rt), rt.Name, true))
		}
	}
	return objs
}

func c07PolTargets(o client.Object) [][2]string {
	var out [][2]string
	switch p := o.(type) {
	case *ngfAPIv1alpha1.ClientSettingsPolicy:
		out = append(out, [2]string{string(p.Spec.TargetRef.Kind), string(p.Spec.TargetRef.Name)})
	case *ngfAPIv1alpha2.ObservabilityPolicy:
		for _, t := range p.Spec.TargetRefs {
			out = append(out, [2]string{string(t.Kind), string(t.Name)})
		}
	case *ngfAPIv1alpha1.UpstreamSettingsPolicy:
		for _, t := range p.Spec.TargetRefs {
			out = append(out, [2]string{string(t.Kind), string(t.Name)})
		}
	case *v1alpha3.BackendTLSPolicy:
		for _, t := range p.Spec.TargetRefs {
			out = append(out, [2]string{string(t.Kind), string(t.Name)})
		}
	}
	return out
}

func c07PolStatusOf(o client.Object) []v1alpha2.PolicyAncestorStatus {
	switch p := o.(type) {
	case *ngfAPIv1alpha1.ClientSettingsPolicy:
		return p.Status.Ancestors
	case *ngfAPIv1alpha2.ObservabilityPolicy:
		return p.Status.Ancestors
	case *ngfAPIv1alpha1.UpstreamSettingsPolicy:
		return p.Status.Ancestors
	case *v1alpha3.BackendTLSPolicy:
		return p.Status.Ancestors
	}
	return nil
}

// TestVerifC07Pol: third part of the C07 check, the policy half of "exactly one entry per ancestor with the current generation".
func TestVerifC07Pol(t *testing.T) {
	out := vu.Open("C07")
	out.ShardLen(25)
	rng := vu.NewRng(out.Seed ^ 0xC07B)
	n := out.Count(200, 4000)
	ctx := context.Background()
	for i := 0; i < n; i++ {
		r := rng.Fork()
		c := vsGen(r, (i*6)/n)
		extra, withParams, _ := c03Policies(r, c)
		if !withParams {
			// telemetry on, so that ObservabilityPolicies can be accepted
			extra = append(extra, &ngfAPIv1alpha1.NginxProxy{ObjectMeta: metav1.ObjectMeta{Name: "np", Generation: 1},
				Spec: ngfAPIv1alpha1.NginxProxySpec{Telemetry: &ngfAPIv1alpha1.Telemetry{Exporter: &ngfAPIv1alpha1.TelemetryExporter{Endpoint: "otel.example.com:4317"}}}})
		}
		extra = append(extra, c07PolDirected(r, c)...)
		before := map[string]int{}
		var pols []client.Object
		for _, o := range extra {
			if _, ok := o.(*ngfAPIv1alpha1.NginxProxy); ok {
				continue
			}
			pols = append(pols, o)
			before[c05Key(o)] = len(c07PolStatusOf(o))
		}
		for _, b := range c.BTPs {
			o := b.obj()
			pols = append(pols, o)
			before[c05Key(o)] = len(c07PolStatusOf(o))
		}
		// in a fifth of the cases the Gateways carry spec.addresses, which NGF does not support: the winning Gateway is invalid and
		// every policy is told that its target is not there - once per ancestor
		invalidGw := r.Chance(1, 5)
		if invalidGw {
			vpObjectsHook = func(objs []client.Object) []client.Object {
				for _, o := range objs {
					if g, ok := o.(*gatewayv1.Gateway); ok {
						g.Spec.Addresses = []gatewayv1.GatewayAddress{{Value: "192.0.2.10"}}
					}
				}
				return objs
			}
		}
		w := vpRunStateWith(c, false, extra, true)
		vpObjectsHook = nil
		// a second batch (an unrelated grant) makes the controller write all statuses again: entries must not pile up
		if r.Bool() {
			w.Batch([]interface{}{w.Apply(vsGrant{NS: "unrelated", Name: "again", From: []vsGrantFrom{{Group: "gateway.networking.k8s.io", Kind: "HTTPRoute", NS: "nowhere"}},
				To: []vsGrantTo{{Group: "", Kind: "Service"}}}.obj())})
		}
		var terms []string
		var humans []map[string]any
		nonTrivial := false
		for _, o := range pols {
			cur := o.DeepCopyObject().(client.Object)
			if err := w.k8s.Get(ctx, client.ObjectKeyFromObject(o), cur); err != nil {
				continue
			}
			kind := c01Kind(o)
			var tt []string
			for _, tg := range c07PolTargets(cur) {
				tt = append(tt, vu.Pair(vu.Str(tg[0]), vu.Str(tg[1])))
			}
			var es []string
			var hes []string
			for _, a := range c07PolStatusOf(cur) {
				k := "Gateway"
				if a.AncestorRef.Kind != nil {
					k = string(*a.AncestorRef.Kind)
				}
				ns := "None"
				if a.AncestorRef.Namespace != nil {
					ns = vu.App("Some", vu.Str(string(*a.AncestorRef.Namespace)))
				}
				es = append(es, vu.App("AEntry", vu.Str(k), ns, vu.Str(string(a.AncestorRef.Name)), vu.Str(string(a.ControllerName)), c07Conds(a.Conditions)))
				hes = append(hes, fmt.Sprintf("%s %s/%s by %s: %v", k, ns, a.AncestorRef.Name, a.ControllerName, c07CondsHuman(a.Conditions)))
				if string(a.ControllerName) == vpCtlrName {
					nonTrivial = true
				}
			}
			terms = append(terms, vu.App("PStatus", vu.Str(kind), vu.Str(cur.GetNamespace()), vu.Str(cur.GetName()), vu.Z(cur.GetGeneration()), vu.List(tt), vu.Nat(before[c05Key(o)]), vu.List(es)))
			humans = append(humans, map[string]any{"policy": c05Key(o), "generation": cur.GetGeneration(), "targets": c07PolTargets(cur), "entries_of_others_before": before[c05Key(o)], "entries": hes})
			out.Tally("kind", kind)
		}
		// does the status of some Route blame an invalid BackendTLSPolicy (other than one with a full ancestor list)?
		blamed := false
		blame := func(ps []gatewayv1.RouteParentStatus) {
			for _, p := range ps {
				for _, cd := range p.Conditions {
					if strings.Contains(cd.Message, "the backend TLS policy is invalid:") && !strings.Contains(cd.Message, "no room for another ancestor") {
						blamed = true
					}
				}
			}
		}
		var hrs gatewayv1.HTTPRouteList
		_ = w.k8s.List(ctx, &hrs)
		for _, o := range hrs.Items {
			blame(o.Status.Parents)
		}
		var grs gatewayv1.GRPCRouteList
		_ = w.k8s.List(ctx, &grs)
		for _, o := range grs.Items {
			blame(o.Status.Parents)
		}
		out.Tally("route_blames_backendtlspolicy", strconv.FormatBool(blamed))
		out.Case(vu.App("PCase", c.Coq(), vu.List(terms), vu.Bool(blamed)), map[string]any{"cluster": c, "policies": humans, "a_route_blames_an_invalid_BackendTLSPolicy": blamed}, nonTrivial && len(pols) >= 3, c.Coq()+vu.List(terms))
		out.Tally("policies", strconv.Itoa(len(pols)/3*3))
		out.Tally("invalid_gateway", strconv.FormatBool(invalidGw))
	}
	out.Close("C07.PolStatus", "")
}

func c07CondsHuman(cs []metav1.Condition) []string {
	var out []string
	for _, c := range cs {
		out = append(out, fmt.Sprintf("%s=%s:%s@%d", c.Type, c.Status, c.Reason, c.ObservedGeneration))
	}
	return out
}
