"""C11 check configuration."""


def setup(register, COMMON_TB):
    register(
        "C11", coq="C11", pkg="./internal/mode/static/nginx/file/", test="TestVerifC11",
        rule="TODO",
        trusted_base=COMMON_TB + [],
        assumptions=[],
        timeout={"quick": 600, "thorough": 7200},
    )
