(* C14 — policies of one kind on one target (graph/policies.go: markConflictedPolicies).

   A policy carries what the function reads: the creation timestamp / namespace / name of its object (LessClientObject),
   its kind (GVK), the target references it names, whether it was still valid when conflict resolution starts, and a tag
   (its identity for the comparison with the implementation). [conf w p] is validator.Conflicts(w, p), always asked with
   the policy of greater precedence first, as the code does.

   [mark] is the resolution the code performs since the repair of D45: all the valid policies in ONE priority order
   (age, then namespace/name); going down that order a policy loses exactly when a policy that is still valid, of the
   same kind and sharing a target with it, conflicts with it. [winners] are the policies before it that stayed valid.

   [old_mark] is the resolution the code performed before: one pass per (kind, target) group over a shared validity
   state, the groups in the order a Go map yields them. It is kept for the refutation theorem (the result depends on
   that order) and for the search for a failing input when the correspondence breaks. *)
From Coq Require Import List String ZArith Bool Arith.
From NGF Require Import lib.Str lib.Order.
Import ListNotations.

Record pol := Pol {
  p_key : key;               (* creation timestamp, namespace, name *)
  p_kind : nat;              (* GVK *)
  p_targets : list nat;      (* target references *)
  p_valid0 : bool;           (* valid before conflict resolution *)
  p_tag : nat
}.

Definition shares_target (a b : pol) : bool :=
  existsb (fun t => existsb (Nat.eqb t) (p_targets b)) (p_targets a).

Definition can_conflict (a b : pol) : bool := Nat.eqb (p_kind a) (p_kind b) && shares_target a b.

Section WithConflicts.
Variable conf : pol -> pol -> bool.

Definition loses_to (winners : list pol) (p : pol) : bool :=
  existsb (fun w => can_conflict w p && conf w p) winners.

(* the result: a verdict (still valid or not) for every policy of the list, which is in priority order *)
Fixpoint mark (winners : list pol) (l : list pol) : list (pol * bool) :=
  match l with
  | [] => []
  | p :: l' =>
      let b := p_valid0 p && negb (loses_to winners p) in
      (p, b) :: mark (if b then winners ++ [p] else winners) l'
  end.

(* priority order: insertion sort by key (keys of distinct objects of one kind differ; ties between kinds are harmless) *)
Fixpoint pinsert (x : pol) (l : list pol) : list pol :=
  match l with
  | [] => [x]
  | y :: l' => if key_lt (p_key x) (p_key y) then x :: y :: l' else y :: pinsert x l'
  end.
Definition psort (l : list pol) : list pol := fold_right pinsert [] l.

Definition resolve (l : list pol) : list (pol * bool) := mark [] (psort l).

(* the policies that are valid in the end, in priority order *)
Definition survivors (v : list (pol * bool)) : list pol := map fst (filter snd v).

(* ---- the resolution before the repair: per (kind, target) group, shared validity, groups in a given order *)
Definition in_group (g : nat * nat) (p : pol) : bool :=
  Nat.eqb (p_kind p) (fst g) && existsb (Nat.eqb (snd g)) (p_targets p).

Fixpoint group_pass (invalid : list nat) (winners : list pol) (l : list pol) : list nat :=
  match l with
  | [] => invalid
  | p :: l' =>
      if existsb (Nat.eqb (p_tag p)) invalid then group_pass invalid winners l'
      else if existsb (fun w => conf w p) winners then group_pass (p_tag p :: invalid) winners l'
      else group_pass invalid (winners ++ [p]) l'
  end.

Definition old_mark (l : list pol) (groups : list (nat * nat)) : list (pol * bool) :=
  let sorted := psort l in
  let invalid0 := map p_tag (filter (fun p => negb (p_valid0 p)) sorted) in
  let invalid := fold_left (fun inv g => group_pass inv [] (filter (fun p => p_valid0 p && in_group g p) sorted)) groups invalid0 in
  map (fun p => (p, negb (existsb (Nat.eqb (p_tag p)) invalid))) sorted.

End WithConflicts.

(* the conflict relation as the harness sends it: pairs of tags (first the policy of greater precedence) *)
Definition conf_of (pairs : list (nat * nat)) (a b : pol) : bool :=
  existsb (fun pr => Nat.eqb (fst pr) (p_tag a) && Nat.eqb (snd pr) (p_tag b)) pairs.
