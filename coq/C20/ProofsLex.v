(* C20 — lemmas, part 3: a safe token is read by the NGINX tokeniser as one bare word wherever the
   mgmt template puts it; hence mgmt.conf tokenises to exactly the intended directives. *)
From Coq Require Import String Ascii NArith ZArith Bool Arith List Lia.
From NGF Require Import C20.Model C20.Spec C20.ProofsSafe.
Import ListNotations.

Lemma lex_run_app : forall a b st,
  lex_run st (a ++ b) =
  match lex_run st a with
  | None => None
  | Some (st', t1) =>
      match lex_run st' b with
      | None => None
      | Some (st'', t2) => Some (st'', t1 ++ t2)
      end
  end.
Proof.
  induction a as [|c a IH]; intros b st; simpl.
  - destruct (lex_run st b) as [[st' t]|]; reflexivity.
  - destruct (lex_step st c) as [[st1 t1]|]; [|reflexivity]. rewrite IH.
    destruct (lex_run st1 a) as [[st2 t2]|]; [|reflexivity].
    destruct (lex_run st2 b) as [[st3 t3]|]; [|reflexivity]. rewrite app_assoc. reflexivity.
Qed.

Lemma safe_step_word : forall c acc, safe_char c = true ->
  lex_step (LWd acc false) c = Some (LWd (c :: acc) false, []).
Proof. intros c acc. ascii_cases c; vm_compute; intro H; try discriminate H; reflexivity. Qed.

Lemma safe_step_start : forall c, safe_char c = true ->
  lex_step LSp c = Some (LWd [c] false, []).
Proof. intros c. ascii_cases c; vm_compute; intro H; try discriminate H; reflexivity. Qed.

Lemma safe_word_run : forall w acc, forallb safe_char w = true ->
  lex_run (LWd acc false) w = Some (LWd (rev w ++ acc) false, []).
Proof.
  induction w as [|c w IH]; intros acc H; [reflexivity|]. cbn [lex_run].
  simpl in H. apply andb_true_iff in H. destruct H as [H1 H2].
  rewrite (safe_step_word _ _ H1). rewrite (IH _ H2). simpl. rewrite <- app_assoc. reflexivity.
Qed.

(* a safe value that continues a bare word, followed by ';' *)
Lemma lex_value_semi : forall w acc rest, forallb safe_char w = true ->
  lex_run (LWd acc false) (w ++ c_semi :: rest) =
  match lex_run LSp rest with
  | None => None
  | Some (st, ts) => Some (st, TW (rev acc ++ w) :: TSemi :: ts)
  end.
Proof.
  intros w acc rest H. rewrite lex_run_app, (safe_word_run _ _ H).
  change (lex_run (LWd (rev w ++ acc) false) (c_semi :: rest))
    with (match lex_run LSp rest with None => None
          | Some (st'', t2) => Some (st'', [TW (rev (rev w ++ acc)); TSemi] ++ t2) end).
  rewrite rev_app_distr, rev_involutive.
  destruct (lex_run LSp rest) as [[st ts]|]; reflexivity.
Qed.

(* a safe value that is a word of its own (after white space), followed by ';' *)
Lemma lex_word_semi : forall w rest, w <> [] -> forallb safe_char w = true ->
  lex_run LSp (w ++ c_semi :: rest) =
  match lex_run LSp rest with
  | None => None
  | Some (st, ts) => Some (st, TW w :: TSemi :: ts)
  end.
Proof.
  intros w rest Hne H. destruct w as [|c w]; [congruence|]. simpl in H. apply andb_true_iff in H.
  destruct H as [H1 H2]. change ((c :: w) ++ c_semi :: rest) with (c :: (w ++ c_semi :: rest)).
  cbn [lex_run]. rewrite (safe_step_start _ H1). rewrite (lex_value_semi _ _ _ H2).
  destruct (lex_run LSp rest) as [[st ts]|]; reflexivity.
Qed.

(* closed prefixes are evaluated *)
Lemma lex_prefix : forall a b st st' t1, lex_run st a = Some (st', t1) ->
  lex_run st (a ++ b) = match lex_run st' b with None => None | Some (st'', t2) => Some (st'', t1 ++ t2) end.
Proof. intros a b st st' t1 H. rewrite lex_run_app, H. reflexivity. Qed.

Definition seg_endpoint : str := nl_tab ++ lit "usage_report endpoint=".
Definition seg_resolver : str := nl_tab ++ lit "resolver ".

Definition mgmt_tail (skip ca client : bool) : str :=
  nl_tab ++ lit "license_token /etc/nginx/secrets/license.jwt;"
  ++ nl_tab ++ lit "deployment_context /etc/nginx/main-includes/deployment_ctx.json;"
  ++ (if skip then nl_tab ++ lit "ssl_verify off;" else [])
  ++ (if ca then nl_tab ++ lit "ssl_trusted_certificate /etc/nginx/secrets/mgmt-ca.crt;" else [])
  ++ (if client then nl_tab ++ lit "ssl_certificate /etc/nginx/secrets/mgmt-tls.crt;"
                      ++ nl_tab ++ lit "ssl_certificate_key /etc/nginx/secrets/mgmt-tls.key;" else [])
  ++ nl ++ lit "}" ++ nl.

Definition tail_tokens (skip ca client : bool) : list tok :=
  [word "license_token"; word "/etc/nginx/secrets/license.jwt"; TSemi;
   word "deployment_context"; word "/etc/nginx/main-includes/deployment_ctx.json"; TSemi]
  ++ (if skip then [word "ssl_verify"; word "off"; TSemi] else [])
  ++ (if ca then [word "ssl_trusted_certificate"; word "/etc/nginx/secrets/mgmt-ca.crt"; TSemi] else [])
  ++ (if client then [word "ssl_certificate"; word "/etc/nginx/secrets/mgmt-tls.crt"; TSemi;
                      word "ssl_certificate_key"; word "/etc/nginx/secrets/mgmt-tls.key"; TSemi] else [])
  ++ [TClose].

Lemma tail_lex : forall skip ca client,
  lex_run LSp (mgmt_tail skip ca client) = Some (LSp, tail_tokens skip ca client).
Proof. intros [|] [|] [|]; vm_compute; reflexivity. Qed.

Definition resolver_part (r : str) : str := if is_nil r then [] else seg_resolver ++ r ++ lit ";".
Definition endpoint_part (e : str) : str := if is_nil e then [] else seg_endpoint ++ e ++ lit ";".

Lemma render_split : forall c,
  render_mgmt c = (nl ++ lit "mgmt {") ++ endpoint_part (m_endpoint c) ++ resolver_part (m_resolver c)
                  ++ mgmt_tail (m_skip_verify c) (m_ca c) (m_client c).
Proof.
  intro c. unfold render_mgmt, endpoint_part, resolver_part, mgmt_tail, seg_endpoint, seg_resolver.
  repeat rewrite <- app_assoc. reflexivity.
Qed.

Lemma resolver_lex : forall r rest st ts, (is_nil r = true \/ safe_token r = true) ->
  lex_run LSp rest = Some (st, ts) ->
  lex_run LSp (resolver_part r ++ rest) =
  Some (st, (if is_nil r then [] else [word "resolver"; TW r; TSemi]) ++ ts).
Proof.
  intros r rest st ts Hr Hrest. unfold resolver_part. destruct (is_nil r) eqn:En.
  - simpl. exact Hrest.
  - destruct Hr as [Hr|Hr]; [discriminate|]. unfold safe_token in Hr. rewrite En in Hr. simpl in Hr.
    assert (Hne : r <> []) by (intro; subst; discriminate).
    repeat rewrite <- app_assoc.
    rewrite (lex_prefix seg_resolver _ LSp LSp [word "resolver"]); [|vm_compute; reflexivity].
    change (lit ";" ++ rest) with (c_semi :: rest).
    rewrite (lex_word_semi _ _ Hne Hr), Hrest. reflexivity.
Qed.

Lemma endpoint_lex : forall e rest st ts, (is_nil e = true \/ safe_token e = true) ->
  lex_run LSp rest = Some (st, ts) ->
  lex_run LSp (endpoint_part e ++ rest) =
  Some (st, (if is_nil e then [] else [word "usage_report"; TW (lit "endpoint=" ++ e); TSemi]) ++ ts).
Proof.
  intros e rest st ts He Hrest. unfold endpoint_part. destruct (is_nil e) eqn:En.
  - simpl. exact Hrest.
  - destruct He as [He|He]; [discriminate|]. unfold safe_token in He. rewrite En in He. simpl in He.
    repeat rewrite <- app_assoc.
    rewrite (lex_prefix seg_endpoint _ LSp
               (LWd (rev (lit "endpoint=")) false) [word "usage_report"]); [|vm_compute; reflexivity].
    change (lit ";" ++ rest) with (c_semi :: rest).
    rewrite (lex_value_semi _ _ _ He), Hrest. rewrite rev_involutive. reflexivity.
Qed.

Lemma mgmt_lex : forall c,
  (is_nil (m_endpoint c) = true \/ safe_token (m_endpoint c) = true) ->
  (is_nil (m_resolver c) = true \/ safe_token (m_resolver c) = true) ->
  lex (render_mgmt c) =
  Some (mgmt_tokens (m_endpoint c) (m_resolver c) (m_skip_verify c) (m_ca c) (m_client c)).
Proof.
  intros c He Hr. unfold lex. rewrite render_split.
  rewrite (lex_prefix (nl ++ lit "mgmt {") _ LSp LSp [word "mgmt"; TOpen]); [|vm_compute; reflexivity].
  rewrite (endpoint_lex _ _ LSp
             ((if is_nil (m_resolver c) then [] else [word "resolver"; TW (m_resolver c); TSemi])
              ++ tail_tokens (m_skip_verify c) (m_ca c) (m_client c)) He).
  - unfold mgmt_tokens, tail_tokens. repeat rewrite <- app_assoc. reflexivity.
  - apply resolver_lex; [exact Hr|]. apply tail_lex.
Qed.
