(* What is forwarded: for a request that the generated configuration proxies or redirects, the path (and Host header) the
   upstream receives, or the path of the Location the client is sent to. ngx/Eval.v decides WHICH rule answers; this file
   follows the rewrite phase of the location that answers:

   - on entering a location the current URI is the request path, or, after the njs module's internal redirect, the path of
     the internal location;
   - "rewrite <regex> <replacement> [break]" directives run in order; a rewrite whose regular expression matches replaces
     the current URI, and with "break" ends the phase. The generator writes "^ $request_uri" (back to the original request
     URI), "^ <path>" (full replacement) and the two prefix forms of C02/Rewrite.v; anything else makes the result Unknown;
   - "proxy_pass <upstream>$request_uri" sends the original request URI, "proxy_pass <upstream>" (no URI part) the current
     one; grpc_pass sends the current one;
   - "return <code> ...$request_uri" redirects to the original path, "...$uri$is_args$args" to the current one. *)
From Coq Require Import List String ZArith Bool Ascii Arith.
From NGF Require Import lib.Str k8s.State ngx.Lexer ngx.Eval C02.Rewrite.
Import ListNotations.
Local Open Scope string_scope.
Local Open Scope list_scope.

Inductive fwd :=
| FwdNone                                   (* the request is neither proxied nor redirected by a location *)
| FwdProxy (path : string) (host : string)  (* host: the value of proxy_set_header Host / grpc_set_header Host, "" if absent *)
| FwdRedirect (path : string)
| FwdUnknown (why : string).

Definition chosen_server (conf : list dir) (q : request) : option dir :=
  let srvs := filter (server_listens (q_port q)) (dirs_named "server" conf) in
  match srvs with
  | [] => None
  | _ =>
      let ssl := existsb (server_is_ssl (q_port q)) srvs in
      if negb (Bool.eqb ssl (q_tls q)) then None else
      let key := if ssl then match q_sni q with Some s => Some s | None => None end else Some (q_host q) in
      match (match key with Some h => pick_server None srvs h | None => None end) with
      | Some s => Some s
      | None =>
          match find (server_is_default (q_port q)) srvs with
          | Some s => Some s
          | None => match srvs with s :: _ => Some s | [] => None end
          end
      end
  end.

Definition strip_args (s : string) : string := match split_on "?"%char s with a :: _ => a | [] => s end.

Fixpoint unescape (l : list ascii) : list ascii :=
  match l with
  | "\"%char :: c :: l' => c :: unescape l'
  | c :: l' => c :: unescape l'
  | [] => []
  end.

Definition tail_plain : list ascii := Str.chars_of "([^?]*)?".
Definition tail_optslash : list ascii := Str.chars_of "(?:/([^?]*))?".
Definition repl_tail : list ascii := Str.chars_of "$1?$args?".

Definition ends_with (suf l : list ascii) : bool := is_prefix_l (rev suf) (rev l).
Definition drop_last (n : nat) (l : list ascii) : list ascii := firstn (List.length l - n) l.

Definition parse_prefix_rewrite (regex repl : string) : option rw :=
  match Str.chars_of regex with
  | "^"%char :: body =>
      let r := Str.chars_of repl in
      if ends_with repl_tail r then
        let r0 := drop_last (List.length repl_tail) r in
        if ends_with tail_optslash body then Some (RW true (unescape (drop_last (List.length tail_optslash) body)) r0)
        else if ends_with tail_plain body then Some (RW false (unescape (drop_last (List.length tail_plain) body)) r0)
        else None
      else None
  | _ => None
  end.

(* the rewrite phase of a location: Some current-URI, or None when a directive is not of a known form *)
Fixpoint run_rewrites (orig cur : string) (ds : list dir) : option string :=
  match ds with
  | [] => Some cur
  | d :: ds' =>
      match d_args d with
      | regex :: repl :: flags =>
          let brk := existsb (seqb "break") flags in
          if seqb regex "^" then
            let c := if seqb repl "$request_uri" then orig else strip_args repl in
            if brk then Some c else run_rewrites orig c ds'
          else
            match parse_prefix_rewrite regex repl with
            | None => None
            | Some r =>
                match Rewrite.apply r (Str.chars_of cur) with
                | Some c => if brk then Some (Str.string_of c) else run_rewrites orig (Str.string_of c) ds'
                | None => run_rewrites orig cur ds'
                end
            end
      | _ => None
      end
  end.

Definition header_value (pre : string) (loc : dir) (name : string) : string :=
  match find (fun d => match d_args d with n :: _ => seqb (lower n) (lower name) | [] => false end)
             (dirs_named (pre ++ "_set_header") (block_of loc)) with
  | Some d => match d_args d with [_; v] => v | _ => "" end
  | None => ""
  end.

(* the location that answers, whether it was reached by the internal redirect, and the URI on entering it *)
Definition answering_location (conf : list dir) (tbl : matchtable) (q : request) : option (dir * string) :=
  match chosen_server conf q with
  | None => None
  | Some srv =>
      match select_location srv (q_path q) with
      | None => None
      | Some loc =>
          match eval_location conf tbl q loc false with
          | inl _ => Some (loc, q_path q)
          | inr target =>
              match select_location srv target with
              | Some loc2 => Some (loc2, target)
              | None => None
              end
          end
      end
  end.

Definition forwarded (conf : list dir) (tbl : matchtable) (q : request) : fwd :=
  match answering_location conf tbl q with
  | None => FwdNone
  | Some (loc, entry) =>
      let body := block_of loc in
      match run_rewrites (q_path q) entry (dirs_named "rewrite" body) with
      | None => FwdUnknown "a rewrite directive of an unknown form"
      | Some cur =>
          match dirs_named "return" body with
          | r :: _ =>
              match d_args r with
              | [_; b] =>
                  if seqb b "" then FwdNone
                  else match find_sub "$request_uri" b, find_sub "$uri$is_args$args" b with
                       | Some _, _ => FwdRedirect (q_path q)
                       | None, Some _ => FwdRedirect cur
                       | None, None => FwdUnknown "a return body without $request_uri or $uri"
                       end
              | _ => FwdNone
              end
          | [] =>
              match dirs_named "proxy_pass" body, dirs_named "grpc_pass" body with
              | p :: _, _ =>
                  FwdProxy (match find_sub "$request_uri" (first_arg p) with Some _ => q_path q | None => cur end)
                           (header_value "proxy" loc "Host")
              | [], p :: _ => FwdProxy cur (header_value "grpc" loc "Host")
              | [], [] => FwdNone
              end
          end
      end
  end.

(* ---------------------------------------------------------------- header modifications *)

(* "$http_<name>": lower case, dashes as underscores *)
Definition http_var_name (h : string) : string :=
  Str.string_of (map (fun c => if Ascii.eqb c "-"%char then "_"%char else c) (Str.chars_of (lower h))).

Definition request_header (q : request) (norm : string) : string :=
  match find (fun hv => seqb (http_var_name (fst hv)) norm) (q_headers q) with Some hv => snd hv | None => "" end.

(* the value of a proxy_set_header argument for this request. The generator writes literals and "${<var>}<value>" where <var>
   is defined by  map ${http_<name>} $<var> { default ''; ~.* ${http_<name>},; }  - NGINX tries the regular expressions of a map
   only for a non-empty source value, so <var> is "<request value>," when the request has the header and "" otherwise. *)
Definition header_arg_value (conf : list dir) (q : request) (v : string) : option string :=
  if has_prefix "${" v then
    match find_sub "}" v with
    | None => None
    | Some i =>
        let var := take (i - 2) (drop 2 v) in
        let rest := drop (S i) v in
        match find (fun d => match rev (d_args d) with x :: _ => seqb x ("$" ++ var)%string | [] => false end) (dirs_named "map" conf) with
        | None => None
        | Some m =>
            match d_args m with
            | src :: _ =>
                (* src is ${http_<name>} *)
                if has_prefix "${http_" src && has_suffix "}" src then
                  let norm := take (String.length src - 8) (drop 7 src) in
                  let entries := block_of m in
                  let shape_ok :=
                    existsb (fun e => seqb (d_name e) "default" && (seqb (first_arg e) "" || seqb (first_arg e) "''")) entries &&
                    existsb (fun e => seqb (d_name e) "~.*" && seqb (first_arg e) (src ++ ",")%string) entries &&
                    Nat.eqb (List.length entries) 2 in
                  if shape_ok then
                    let rv := request_header q norm in
                    Some ((if seqb rv "" then "" else rv ++ ",") ++ rest)%string
                  else None
                else None
            | [] => None
            end
        end
    end
  else Some v.

(* what the upstream receives for header [n] because of the location's proxy_set_header / grpc_set_header directives:
   inl = not mentioned by the location (the request's own header passes), inr None = suppressed, inr (Some v) = sent as v;
   a name set twice, or a value of an unknown form, is reported as an error string *)
Definition upstream_header (conf : list dir) (q : request) (loc : dir) (n : string) : (unit + option string) + string :=
  let ds := dirs_named "proxy_set_header" (block_of loc) ++ dirs_named "grpc_set_header" (block_of loc) in
  match filter (fun d => match d_args d with x :: _ => seqb (lower x) (lower n) | [] => false end) ds with
  | [] => inl (inl tt)
  | [d] =>
      match d_args d with
      | [_; v] => match header_arg_value conf q v with
                  | Some s => inl (inr (if seqb s "" then None else Some s))
                  | None => inr ("a header value of an unknown form: " ++ v)%string
                  end
      | _ => inr "set_header without two arguments"
      end
  | _ => inr ("the header is set twice in one location: " ++ n)%string
  end.

(* response side: (name, value) pairs added, names hidden *)
Definition response_headers (loc : dir) : list (string * string) * list string :=
  (flat_map (fun d => match d_args d with n :: v :: _ => [(n, v)] | _ => [] end) (dirs_named "add_header" (block_of loc)),
   map first_arg (dirs_named "proxy_hide_header" (block_of loc))).
