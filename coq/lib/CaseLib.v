(* Shared by every cases_*.v shard written by the Go harnesses.
   [check_all f base cases] evaluates the per-property checker [f] on every case and returns the
   (index, codes) pairs of the cases with a non-empty code list.
   Codes (by convention, see /verif/lib/vcheck.py):
     1        model and implementation disagree on a projected observable (correspondence broken)
     2        the property oracle fails on the implementation's own output (violation)
     100 + k  the oracle fails and the input lies in the class of known finding number k *)
From Coq Require Import List Arith.
Import ListNotations.

Fixpoint check_all_from {A} (f : A -> list nat) (i : nat) (cs : list A) : list (nat * list nat) :=
  match cs with
  | [] => []
  | c :: cs' =>
      match f c with
      | [] => check_all_from f (S i) cs'
      | codes => (i, codes) :: check_all_from f (S i) cs'
      end
  end.

Definition check_all {A} (f : A -> list nat) (base : nat) (cs : list A) := check_all_from f base cs.

Definition code_mismatch := 1.
Definition code_violation := 2.
Definition code_known (k : nat) := 100 + k.

Definition when (b : bool) (code : nat) : list nat := if b then [code] else [].
