"""C13 check configuration."""


def setup(register, COMMON_TB):
    register(
        "C13", coq="C13", pkg="./internal/mode/static/", test="TestVerifC13",
        rule="placeholder",
        trusted_base=COMMON_TB,
        assumptions=[],
        timeout={"quick": 900, "thorough": 7200},
    )
