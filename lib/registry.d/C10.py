"""C10 check configuration."""


def setup(register, COMMON_TB):
    register(
        "C10", coq="C10", pkg="./internal/framework/events/", test="TestVerifC10",
        rule="scripts over {sync send, concurrent burst, send racing a release, release, quiesce, cancel, pause, yield}: "
             "a corpus, all words over {S,R,X,Q,C} up to length 4 (quick) / 6 (thorough), and random longer scripts "
             "(size ramps with the index; start-up batch of 0-3 events with spare capacity); non-trivial = at least 3 "
             "delivered events, at least 3 handler calls and a coalesced batch of 2 or more events; distinct = distinct "
             "(script, observed log)",
        race=True,
        timeout={"quick": 600, "thorough": 3600},
        trusted_base=COMMON_TB + [
            "modelled, not verified: Go's select picks any ready case; an unbuffered channel send completes exactly when the "
            "receiver takes the value; append writes cell len(s) of the same array or copies to a fresh array (the model "
            "allows either at every append); a slice header passed to a goroutine is copied at the go statement",
            "the harness sees handler entry/exit, send start/completion, cancel and the return of Start; the loop's own "
            "actions (receive, take handlingDone, see ctx.Done) are placed by the trace-inclusion search in C10.Check",
            "liveness is observed with a 10 s bound (OStall); the theorems about progress are enabledness statements about the model",
            "the preparer is a fake returning a fresh slice; FirstEventBatchPreparerImpl and the controller-runtime watches "
            "that feed eventCh (reconciler.go) are outside this check",
        ],
        assumptions=[
            "events still in nextBatch when Start returns after cancellation are dropped by design (the process is exiting); "
            "'exactly once' is proved as: handled batches are a prefix of start-up batch ++ delivered events, and equal to it "
            "whenever the loop is idle",
            "the handler does not retain the batch slice after HandleEventBatch returns",
        ],
    )
