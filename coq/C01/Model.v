(* C01 — model of the change processor (state/change_processor.go, state/store.go): events are captured
   store-first, then the per-kind relevance predicate is asked against the graph of the PREVIOUS Process();
   Process() rebuilds the graph from the store iff something relevant was captured.

   The model is generic in the store, the events and the graph builder (a Section); what the real
   predicates must satisfy is the single hypothesis [frame]: an event judged irrelevant against the graph
   built from the current store does not change what would be built. The correspondence harness validates
   [frame] on the real BuildGraph / IsReferenced / IsNGFPolicyRelevant by comparing the long-lived
   controller with a freshly started one on the final cluster state (see C01/Check.v). *)
From Coq Require Import List Bool.
Import ListNotations.

Section Processor.
  Variables St Ev G : Type.
  Variable build : St -> G.                    (* graph.BuildGraph over the cluster state *)
  Variable upd : St -> Ev -> St.               (* store update of an upsert/delete event *)
  Variable relevant : G -> St -> Ev -> bool.   (* predicate of the event's kind, given the latest graph and the
                                                  store before the event (a delete of an unknown object is never relevant) *)

  Record pstate := { store : St; latest : G; dirty : bool }.

  Definition init (s0 : St) : pstate := {| store := s0; latest := build s0; dirty := false |}.

  (* CaptureUpsertChange / CaptureDeleteChange *)
  Definition capture (p : pstate) (e : Ev) : pstate :=
    {| store := upd (store p) e; latest := latest p; dirty := dirty p || relevant (latest p) (store p) e |}.

  (* Process() *)
  Definition process (p : pstate) : pstate :=
    if dirty p then {| store := store p; latest := build (store p); dirty := false |} else p.

  Definition handle_batch (p : pstate) (batch : list Ev) : pstate := process (fold_left capture batch p).

  Definition run (s0 : St) (batches : list (list Ev)) : pstate := fold_left handle_batch batches (init s0).

  (* the store a history leaves behind, independent of any graph *)
  Definition store_after (s0 : St) (batches : list (list Ev)) : St := fold_left upd (concat batches) s0.
End Processor.
