(* C16 - the certificate the specification prescribes for a TLS request (k8s/Spec.v expected_secret, which the C16 check
   compares with the certificate the generated servers present) always belongs to a VALID listener of the winning Gateway
   on the request's port; when that listener is an HTTPS listener its Secret exists, is a usable key pair, and lives in the
   Gateway's namespace or is permitted by a ReferenceGrant. A listener whose Secret is missing, unusable or not permitted
   therefore never provides a certificate. *)
From Coq Require Import List String ZArith Bool.
From NGF Require Import lib.Str k8s.State k8s.Spec.
Import ListNotations.

Lemma most_specific_listener_in : forall ls best, In (most_specific_listener best ls) (best :: ls).
Proof.
  induction ls as [|x ls IH]; intros best; cbn [most_specific_listener]; [left; reflexivity|].
  destruct (lh_more_specific x best && negb (seqb (lhost x) (lhost best))).
  - destruct (IH x) as [H|H]; [right; left; exact H|right; right; exact H].
  - destruct (IH best) as [H|H]; [left; exact H|right; right; exact H].
Qed.

Lemma port_bindings_listener : forall cs g port h l r, In (h, l, r) (port_bindings cs g port) ->
  In l (g_listeners g) /\ (l_port l =? port)%Z = true /\ listener_valid cs g l = true.
Proof.
  intros cs g port h l r H. unfold port_bindings in H. apply in_flat_map in H. destruct H as [l0 [Hin H]].
  destruct ((l_port l0 =? port)%Z && listener_valid cs g l0) eqn:E; [|contradiction].
  apply in_flat_map in H. destruct H as [r0 [_ H]]. apply in_map_iff in H. destruct H as [h0 [Heq _]].
  inversion Heq; subst. apply andb_true_iff in E. destruct E as [E1 E2]. auto.
Qed.

Theorem expected_secret_sound : forall cs q ns name amb,
  expected_secret cs q = Some (ns, name, amb) ->
  exists g l cr,
    winning_gateway cs = Some g /\ In l (g_listeners g) /\ (l_port l =? q_port q)%Z = true /\
    listener_valid cs g l = true /\ l_cert l = Some cr /\
    ns = (match cr_ns cr with Some n => n | None => g_ns g end) /\ name = cr_name cr /\
    (l_proto l = PHTTPS ->
       (seqb ns (g_ns g) || ref_permitted cs ns "Secret" name "Gateway" (g_ns g)) = true /\
       existsb (fun s => seqb (sec_ns s) ns && seqb (sec_name s) name && sec_ok s) (c_secrets cs) = true).
Proof.
  intros cs q ns name amb H. unfold expected_secret in H.
  destruct (winning_gateway cs) as [g|] eqn:Hg; [|discriminate].
  destruct (q_sni q) as [sni|]; [|discriminate].
  destruct (best_name None _ sni) as [x|]; [|discriminate].
  set (binds := port_bindings cs g (q_port q)) in *.
  set (via := map (fun b => snd (fst b)) (filter (fun b => seqb (fst (fst b)) x) binds)) in *.
  set (own := filter _ (valid_listeners_on cs g (q_port q))) in *.
  assert (Hvia : forall l, In l via -> In l (g_listeners g) /\ (l_port l =? q_port q)%Z = true /\ listener_valid cs g l = true).
  { intros l Hl. unfold via in Hl. apply in_map_iff in Hl. destruct Hl as [[[h l0] r] [Heq Hf]]. cbn in Heq. subst l0.
    apply filter_In in Hf. destruct Hf as [Hb _]. exact (port_bindings_listener _ _ _ _ _ _ Hb). }
  assert (Hown : forall l, In l own -> In l (g_listeners g) /\ (l_port l =? q_port q)%Z = true /\ listener_valid cs g l = true).
  { intros l Hl. unfold own in Hl. apply filter_In in Hl. destruct Hl as [Hv _]. unfold valid_listeners_on in Hv.
    apply filter_In in Hv. destruct Hv as [Hin E]. apply andb_true_iff in E. destruct E. auto. }
  assert (Hc : forall l, In l (match via with [] => own | _ => via end) ->
                 In l (g_listeners g) /\ (l_port l =? q_port q)%Z = true /\ listener_valid cs g l = true).
  { intros l Hl. destruct via; [apply Hown|apply Hvia]; exact Hl. }
  destruct (match via with [] => own | _ => via end) as [|l0 ls] eqn:Ec; [discriminate|].
  pose proof (most_specific_listener_in ls l0) as Hin.
  set (l := most_specific_listener l0 ls) in *.
  destruct (l_cert l) as [cr|] eqn:Hcr; [|discriminate].
  inversion H; subst ns name. clear H.
  destruct (Hc l Hin) as [Hl [Hp Hv]].
  exists g, l, cr. repeat split; try assumption; try reflexivity.
  all: match goal with Hq : l_proto _ = PHTTPS |- _ =>
         unfold listener_valid in Hv; apply andb_true_iff in Hv; destruct Hv as [Hs _];
         unfold listener_sound in Hs; rewrite Hq in Hs; apply andb_true_iff in Hs; destruct Hs as [_ Hcert];
         unfold cert_ok in Hcert; rewrite Hcr in Hcert; apply andb_true_iff in Hcert
       end.
  - exact (proj1 Hcert).
  - exact (proj2 Hcert).
Qed.

(* the other direction: an HTTPS listener whose Secret is missing, unusable or not permitted is not valid *)
Theorem unusable_secret_invalidates_listener : forall cs g l,
  l_proto l = PHTTPS -> cert_ok cs g l = false -> listener_valid cs g l = false.
Proof.
  intros cs g l Hp Hc. unfold listener_valid, listener_sound. rewrite Hp, Hc. rewrite andb_false_r. reflexivity.
Qed.
