(* C09, second part — proofs about the wiring model of Wire.v and its composition with the
   LeaderAwareGroupUpdater model (Model.v / Proofs.v). *)
From Coq Require Import List Arith Bool String Lia.
From NGF Require Import C09.Model C09.Proofs C09.Wire.
Import ListNotations.
Local Open Scope string_scope.
Local Open Scope list_scope.

Lemma check_real_nil w : check_case (Real w) = [] <-> corr w = true /\ oracle w = true.
Proof.
  unfold check_case, when. destruct (corr w), (oracle w); simpl; split; intros H;
    try discriminate; try (split; reflexivity); try reflexivity; destruct H; discriminate.
Qed.

Lemma started_payloads_in p rs :
  In p (started_payloads rs) <->
  exists r, In r rs /\ r_payload r = p /\ start_invokes (r_chain r) <> 0.
Proof.
  unfold started_payloads. rewrite in_flat_map. split.
  - intros [r [Hr Hin]]. exists r. split; [exact Hr|]. split.
    + symmetry. eapply repeat_spec. exact Hin.
    + intros H0. rewrite H0 in Hin. destruct Hin.
  - intros [r (Hr & Hp & Hn)]. exists r. split; [exact Hr|]. subst p.
    destruct (start_invokes (r_chain r)); [congruence|]. simpl. left. reflexivity.
Qed.

Section Checked.
  Variable w : wiring.
  Hypothesis Hc : corr w = true.
  Hypothesis Ho : oracle w = true.

  Lemma corr_regs r : In r (w_regs w) -> corr_reg r = true.
  Proof.
    intros Hr. pose proof Hc as Hc'. unfold corr in Hc'. apply andb_true_iff in Hc'. destruct Hc' as [H1 _].
    apply andb_true_iff in H1. destruct H1 as [_ H2]. rewrite forallb_forall in H2. apply H2. exact Hr.
  Qed.

  Lemma oracle_leader_aware : leader_aware w = true.
  Proof. pose proof Ho as Ho'. unfold oracle in Ho'. apply andb_true_iff in Ho'. tauto. Qed.

  (* a registration of <ident>.Enable is in the model's leader group *)
  Lemma enable_reg_leader r :
    In r (w_regs w) -> r_payload r = enable_of w -> needs_leader (r_chain r) = true.
  Proof.
    intros Hr Hp. pose proof Ho as Ho'. unfold oracle in Ho'. apply andb_true_iff in Ho'. destruct Ho' as [H1 _].
    apply andb_true_iff in H1. destruct H1 as [H1 _]. rewrite forallb_forall in H1.
    specialize (H1 r Hr). unfold is_enable_reg in H1. rewrite Hp, String.eqb_refl in H1. simpl in H1.
    pose proof (corr_regs r Hr) as Hcr. unfold corr_reg in Hcr.
    apply andb_true_iff in Hcr. destruct Hcr as [Hcr _]. apply andb_true_iff in Hcr. destruct Hcr as [_ Hcr].
    apply eqb_prop in Hcr. rewrite Hcr. exact H1.
  Qed.

  Lemma others_no_enable : ~ In (enable_of w) (started_payloads (group_others w)).
  Proof.
    intros Hin. apply started_payloads_in in Hin. destruct Hin as [r (Hr & Hp & _)].
    unfold group_others in Hr. apply filter_In in Hr. destruct Hr as [Hr Hn].
    rewrite (enable_reg_leader r Hr Hp) in Hn. discriminate.
  Qed.

  Lemma leader_has_enable : In (enable_of w) (started_payloads (group_leader w)).
  Proof.
    pose proof Ho as Ho'. unfold oracle in Ho'. apply andb_true_iff in Ho'. destruct Ho' as [H1 _].
    apply andb_true_iff in H1. destruct H1 as [_ H2]. apply existsb_exists in H2.
    destruct H2 as [r [Hr H2]]. apply andb_true_iff in H2. destruct H2 as [Hp Hi].
    apply String.eqb_eq in Hp. apply Nat.eqb_eq in Hi.
    apply started_payloads_in. exists r. split; [|split; [exact Hp|]].
    - unfold group_leader. apply filter_In. split; [exact Hr|]. apply enable_reg_leader; assumption.
    - pose proof (corr_regs r Hr) as Hcr. unfold corr_reg in Hcr. apply andb_true_iff in Hcr.
      destruct Hcr as [_ Hcr]. apply Nat.eqb_eq in Hcr. lia.
  Qed.

  (* the only event that can invoke Enable is an effective Elected *)
  Lemma mstep_enable s e :
    In (enable_of w) (snd (mstep w s e)) ->
    e = MElected /\ m_elected s = false /\ m_elected (fst (mstep w s e)) = true.
  Proof.
    destruct e; unfold mstep.
    - destruct (m_started s); simpl; [intros []|]. intros H. destruct (others_no_enable H).
    - destruct (m_started s); simpl; [|intros []]. destruct (m_elected s); simpl; [intros []|]. auto.
  Qed.

  Lemma mrun_enable tr :
    forall s0 s inv, In (s, inv) (mrun w s0 tr) -> In (enable_of w) inv -> m_elected s = true.
  Proof.
    induction tr as [|e tr IH]; intros s0 s inv Hin He; simpl in Hin; [destruct Hin|].
    destruct Hin as [Heq|Hin].
    - pose proof (mstep_enable s0 e) as H. rewrite Heq in H. simpl in H. apply H. exact He.
    - eapply IH; eassumption.
  Qed.

  Lemma mfinal_no_election tr :
    forall s, ~ In MElected tr -> m_elected s = false ->
              m_elected (mfinal w s tr) = false /\
              (m_started s = true \/ In MStart tr -> m_started (mfinal w s tr) = true).
  Proof.
    induction tr as [|e tr IH]; intros s Hn Hs; simpl.
    - split; [exact Hs|]. intros [H|[]]. exact H.
    - destruct e; [|exfalso; apply Hn; left; reflexivity].
      assert (Hn' : ~ In MElected tr) by (intros H; apply Hn; right; exact H).
      assert (Hs' : m_elected (fst (mstep w s MStart)) = false)
        by (unfold mstep; destruct (m_started s); simpl; exact Hs).
      assert (Hst : m_started (fst (mstep w s MStart)) = true)
        by (unfold mstep; destruct (m_started s) eqn:E; simpl; [exact E|reflexivity]).
      destruct (IH _ Hn' Hs') as [H1 H2]. split; [exact H1|]. intros _. apply H2. left. exact Hst.
  Qed.

  (* non-vacuity of the previous lemma: the first election after Start does invoke Enable *)
  Lemma enable_on_election tr :
    ~ In MElected tr -> In MStart tr ->
    In (enable_of w) (snd (mstep w (mfinal w minit tr) MElected)) /\
    m_elected (fst (mstep w (mfinal w minit tr) MElected)) = true.
  Proof.
    intros Hn Hs. destruct (mfinal_no_election tr minit Hn eq_refl) as [H1 H2].
    specialize (H2 (or_intror Hs)). unfold mstep. rewrite H1, H2. simpl.
    split; [exact leader_has_enable|reflexivity].
  Qed.

  Lemma enable_ops_nil inv : ~ In (enable_of w) inv -> enable_ops w inv = [].
  Proof.
    intros Hn. unfold enable_ops. induction inv as [|p inv IH]; simpl; [reflexivity|].
    destruct (String.eqb_spec (enable_of w) p) as [Heq|Hne].
    - exfalso. apply Hn. left. symmetry. exact Heq.
    - apply IH. intros H. apply Hn. right. exact H.
  Qed.

  (* a replica that is never elected only ever submits: the operations reaching the
     LeaderAwareGroupUpdater contain no Enable *)
  Lemma sys_ops_updates evs :
    forall s, m_elected s = false -> never_elected evs -> all_updates (sys_ops w s evs).
  Proof.
    induction evs as [|ev evs IH]; intros s Hs Hn o Hin; simpl in Hin; [destruct Hin|].
    assert (Hn' : never_elected evs) by (intros e He; apply Hn; right; exact He).
    destruct ev as [e|g rs].
    - destruct e; [|exfalso; apply (Hn (SysM MElected)); [left; reflexivity|reflexivity]].
      rewrite enable_ops_nil in Hin.
      + simpl in Hin. apply (IH (fst (mstep w s MStart))); [|exact Hn'|exact Hin].
        unfold mstep. destruct (m_started s); simpl; exact Hs.
      + intros H. apply mstep_enable in H. destruct H as [H _]. discriminate.
    - destruct Hin as [<-|Hin]; [reflexivity|]. apply (IH s Hs Hn' o Hin).
  Qed.

  Lemma not_elected_never_writes pi evs :
    never_elected evs -> forall x, In x (sys_writes pi w evs) -> x = [].
  Proof.
    intros Hn x Hx. unfold sys_writes in Hx. rewrite oracle_leader_aware in Hx.
    eapply never_leader_never_writes; [|exact Hx].
    apply sys_ops_updates; [reflexivity|exact Hn].
  Qed.
End Checked.

(* ---------------------------------------------------------------- statements over "passes the check" *)

Lemma wiring_enable_only_when_elected :
  forall w, check_case (Real w) = [] ->
  forall tr s inv, In (s, inv) (mrun w minit tr) -> In (enable_of w) inv -> m_elected s = true.
Proof.
  intros w H tr s inv. apply check_real_nil in H. destruct H as [Hc Ho].
  apply (mrun_enable w Hc Ho tr minit).
Qed.

Lemma wiring_enable_on_election :
  forall w, check_case (Real w) = [] ->
  forall tr, ~ In MElected tr -> In MStart tr ->
  In (enable_of w) (snd (mstep w (mfinal w minit tr) MElected)) /\
  m_elected (fst (mstep w (mfinal w minit tr) MElected)) = true.
Proof.
  intros w H. apply check_real_nil in H. destruct H as [Hc Ho]. apply (enable_on_election w Hc Ho).
Qed.

Lemma wiring_not_elected_never_writes :
  forall w, check_case (Real w) = [] ->
  forall pi evs, never_elected evs -> forall x, In x (sys_writes pi w evs) -> x = [].
Proof.
  intros w H. apply check_real_nil in H. destruct H as [Hc Ho]. apply (not_elected_never_writes w Hc Ho).
Qed.

(* ---------------------------------------------------------------- the hypotheses are satisfiable *)

Definition opaque_event_loop : string :=
  "opaque:github.com/nginx/nginx-gateway-fabric/internal/framework/events.NewEventLoop".

(* what the harness extracts from manager.go of the unchanged tree: the event loop on every replica,
   Enable of groupStatusUpdater and the telemetry job on the leader *)
Definition current_wiring : wiring :=
  Wiring [ Reg "" [wLeaderOrNonLeader; opaque_event_loop] false 0 true;
           Reg "groupStatusUpdater.Enable" [wEnable] true 1 true;
           Reg "" [wLeader; wCronJob] true 0 true ]
         true "groupStatusUpdater" la_ctor "statusUpdater" [].

Example current_wiring_passes : check_case (Real current_wiring) = [].
Proof. vm_compute. reflexivity. Qed.

(* ... and the conclusion is not vacuous for it: Start, then Elected, invokes Enable exactly then *)
Example current_wiring_trace :
  mrun current_wiring minit [MStart; MElected; MElected] =
  [ (MSt true false, []); (MSt true true, ["groupStatusUpdater.Enable"]); (MSt true true, []) ].
Proof. vm_compute. reflexivity. Qed.

(* ---------------------------------------------------------------- variants that must be refuted *)

(* mgr.Add(&runnables.LeaderOrNonLeader{Runnable: runnables.NewEnableAfterBecameLeader(groupStatusUpdater.Enable)}):
   the outer wrapper answers false, the real object is started by Start on every replica *)
Definition wrapped_wiring : wiring :=
  Wiring [ Reg "" [wLeaderOrNonLeader; opaque_event_loop] false 0 true;
           Reg "groupStatusUpdater.Enable" [wLeaderOrNonLeader; wEnable] false 1 true;
           Reg "" [wLeader; wCronJob] true 0 true ]
         true "groupStatusUpdater" la_ctor "statusUpdater" [].

Lemma wrapped_wiring_refuted :
  corr wrapped_wiring = true /\ oracle wrapped_wiring = false /\ check_case (Real wrapped_wiring) = [2] /\
  (exists tr s inv, In (s, inv) (mrun wrapped_wiring minit tr) /\
                    In (enable_of wrapped_wiring) inv /\ m_elected s = false) /\
  (exists evs, never_elected evs /\
               exists x, In x (sys_writes (fun l => l) wrapped_wiring evs) /\ x <> []).
Proof.
  split; [vm_compute; reflexivity|]. split; [vm_compute; reflexivity|]. split; [vm_compute; reflexivity|]. split.
  - exists [MStart], (MSt true false), ["groupStatusUpdater.Enable"].
    split; [vm_compute; left; reflexivity|]. split; [vm_compute; left; reflexivity|reflexivity].
  - exists [SysU 0 [1]; SysM MStart]. split.
    + intros e [<-|[<-|[]]]; discriminate.
    + exists [1]. split; [vm_compute; right; left; reflexivity|discriminate].
Qed.

(* eventHandlerConfig{... statusUpdater: statusUpdater ...}: the handler submits to the plain Updater *)
Definition raw_wiring : wiring :=
  Wiring [ Reg "" [wLeaderOrNonLeader; opaque_event_loop] false 0 true;
           Reg "groupStatusUpdater.Enable" [wEnable] true 1 true;
           Reg "" [wLeader; wCronJob] true 0 true ]
         true "statusUpdater" "github.com/nginx/nginx-gateway-fabric/internal/framework/status.NewUpdater"
         "mgr.GetClient()" [].

Lemma raw_wiring_refuted :
  corr raw_wiring = true /\ oracle raw_wiring = false /\ check_case (Real raw_wiring) = [2] /\
  (exists evs, never_elected evs /\
               exists x, In x (sys_writes (fun l => l) raw_wiring evs) /\ x <> []).
Proof.
  split; [vm_compute; reflexivity|]. split; [vm_compute; reflexivity|]. split; [vm_compute; reflexivity|].
  exists [SysU 0 [1]]. split.
  - intros e [<-|[]]; discriminate.
  - exists [1]. split; [vm_compute; left; reflexivity|discriminate].
Qed.

(* the model of the runnable types on the shapes that occur *)
Example needs_leader_examples :
  needs_leader [wEnable] = true /\ needs_leader [wLeader; wCronJob] = true /\
  needs_leader [wCronJob] = true /\ needs_leader [opaque_event_loop] = true /\
  needs_leader [wLeaderOrNonLeader; wEnable] = false /\
  needs_leader [wLeader; wLeaderOrNonLeader; wEnable] = true /\
  start_invokes [wLeader; wLeaderOrNonLeader; wEnable] = 1 /\ start_invokes [wLeader; wCronJob] = 0.
Proof. vm_compute. repeat split. Qed.
