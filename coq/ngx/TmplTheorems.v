(* End-to-end statement for one template execution: text/template layer (ngx/TmplProofs.v) composed with the NGINX
   tokenizer layer (ngx/SymLexProofs.v).

   If a template, run on data whose user-controlled strings are holes, yields chunks, and the symbolic tokenizer run over
   those chunks ends (with tokens, or with a lexical error), then for EVERY substitution of the holes that
     - maps every hole to a non-empty string that is none of the template's string constants, and
     - respects the class chosen for each hole (plain characters only, or characters that are inert inside quotes),
   the template run on the filled-in data produces exactly the filled-in text, and NGINX's tokenizer cuts that text into
   exactly the predicted tokens with the holes' contents inside the predicted words. *)
From Coq Require Import List String Ascii Bool Arith.
From NGF Require Import ngx.Lexer ngx.Tmpl ngx.TmplProofs ngx.SymLex ngx.SymLexProofs.
Import ListNotations.
Local Open Scope string_scope.
Local Open Scope list_scope.

Local Opaque exec_fuel.

(* chunks as symbols: every occurrence of a hole gets the kind listed for it (0 plain, 1 quoted-plain, 2 bare-safe,
   3 double-quote-safe; quoted-plain when the list is exhausted) *)
Definition hole_sym (k : nat) (id : nat) : sym :=
  match k with 0 => SH id | 2 => SB id | 3 => SD id | _ => SQ id end.

Fixpoint syms_cls (kinds : list nat) (cs : list chunk) : list sym :=
  match cs with
  | [] => []
  | CText s :: cs' => syms_of_string s ++ syms_cls kinds cs'
  | CHole id :: cs' =>
      match kinds with
      | k :: ks => hole_sym k id :: syms_cls ks cs'
      | [] => SQ id :: syms_cls [] cs'
      end
  end.

Lemma chars_of_app : forall a b, chars_of (a ++ b)%string = chars_of a ++ chars_of b.
Proof. induction a as [|c a IH]; intros b; cbn [String.append chars_of app]; [reflexivity|]. rewrite IH. reflexivity. Qed.

Lemma chars_of_concat : forall l, chars_of (String.concat "" l) = flat_map chars_of l.
Proof.
  induction l as [|s l IH]; [reflexivity|].
  cbn [String.concat flat_map]. destruct l as [|s2 l2].
  - cbn [flat_map]. rewrite app_nil_r. reflexivity.
  - cbn [String.append]. rewrite chars_of_app. cbn [String.append]. rewrite IH. reflexivity.
Qed.

Lemma expand_chars : forall sgc s, expand sgc (syms_of_string s) = chars_of s.
Proof.
  intros sgc s. unfold syms_of_string, expand. induction (chars_of s) as [|c l IH]; [reflexivity|].
  cbn [map flat_map inst_sym app]. rewrite IH. reflexivity.
Qed.

Lemma expand_hole_sym : forall sgc k id, expand sgc [hole_sym k id] = sgc id.
Proof.
  intros sgc k id. unfold expand. cbn [flat_map]. rewrite app_nil_r.
  destruct k as [|[|[|[|k]]]]; reflexivity.
Qed.

Lemma render_cons : forall sg c cs, chars_of (render sg (c :: cs)) = chars_of (render_chunk sg c) ++ chars_of (render sg cs).
Proof. intros sg c cs. unfold render. rewrite !chars_of_concat. reflexivity. Qed.

Lemma render_expand : forall sg cs kinds,
  chars_of (render sg cs) = expand (fun id => chars_of (sg id)) (syms_cls kinds cs).
Proof.
  intros sg. induction cs as [|c cs IH]; intros kinds; [reflexivity|].
  rewrite render_cons. destruct c as [s|id]; cbn [syms_cls render_chunk].
  - rewrite expand_app, expand_chars, <- IH. reflexivity.
  - destruct kinds as [|k ks].
    + change (SQ id :: syms_cls [] cs) with ([hole_sym 1 id] ++ syms_cls [] cs).
      rewrite expand_app, expand_hole_sym, <- IH. reflexivity.
    + change (hole_sym k id :: syms_cls ks cs) with ([hole_sym k id] ++ syms_cls ks cs).
      rewrite expand_app, expand_hole_sym, <- IH. reflexivity.
Qed.

Theorem template_tokens_for_all_contents :
  forall (t : list node) (d : value) (cls : list nat) (chunks : list chunk),
    run t d = Some chunks ->
    forall sg : nat -> string,
      (forall id, sg id <> "") ->
      (forall id, mem_string (sg id) (consts_of t) = false) ->
      forallb (sym_ok (fun id => chars_of (sg id))) (syms_cls cls chunks) = true ->
      run t (fill sg d) = Some (map (fill_chunk sg) chunks) /\
      match slrun SLStart (syms_cls cls chunks) with
      | RDone s toks =>
          lrun LStart (chars_of (render sg chunks)) =
          Some (inst_st (fun id => chars_of (sg id)) s, map (inst_tok (fun id => chars_of (sg id))) toks)
      | RErr => lrun LStart (chars_of (render sg chunks)) = None
      | RUnsupported => True
      end.
Proof.
  intros t d cls chunks Hrun sg Hne Hav Hok. split.
  - unfold run in *.
    destruct (exec (consts_of t) exec_fuel d [("", d)] t) as [[o vs]|] eqn:E; [|discriminate].
    injection Hrun as Ho. subst o.
    pose proof (exec_fill sg (consts_of t) Hne Hav exec_fuel d [("", d)] t chunks vs E) as F.
    change (fill_vars sg [("", d)]) with [("", fill sg d)] in F. rewrite F. reflexivity.
  - rewrite (render_expand sg chunks cls).
    exact (slrun_sound (fun id => chars_of (sg id)) (syms_cls cls chunks) SLStart Hok).
Qed.

(* Corollary: the cut into tokens (kinds and quoting) is the same for all admissible contents of the holes. *)
Theorem template_skeleton_independent :
  forall t d cls chunks, run t d = Some chunks ->
    slrun SLStart (syms_cls cls chunks) <> RUnsupported ->
    forall sg1 sg2 : nat -> string,
      forallb (sym_ok (fun id => chars_of (sg1 id))) (syms_cls cls chunks) = true ->
      forallb (sym_ok (fun id => chars_of (sg2 id))) (syms_cls cls chunks) = true ->
      match lex (render sg1 chunks), lex (render sg2 chunks) with
      | Some t1, Some t2 => map tok_kind t1 = map tok_kind t2
      | None, None => True
      | _, _ => False
      end.
Proof.
  intros t d cls chunks _ Hsup sg1 sg2 H1 H2. unfold lex.
  rewrite (render_expand sg1 chunks cls), (render_expand sg2 chunks cls).
  exact (lex_independent_of_holes _ _ _ H1 H2 Hsup).
Qed.
