"""C08 check configuration."""


def setup(register, COMMON_TB):
    register(
        "C08", coq="C08", pkg="./internal/mode/static/status/", test="TestVerifC08",
        rule="TBD",
        trusted_base=COMMON_TB + [],
        assumptions=[],
        timeout={"quick": 900, "thorough": 3600},
    )
