(* C16 — property theorems (on the specification side; being extended). *)
From Coq Require Import List String Bool.
From NGF Require Import lib.Str k8s.State k8s.Spec.
Import ListNotations.

(* A backend whose BackendTLSPolicy is invalid (missing CA ConfigMap, ...) is never in effect. *)
Theorem C16_invalid_policy_backend_not_served :
  forall cs r b p,
  btp_for cs (match b_ns b with Some n => n | None => rt_ns r end) (b_name b) = Some p ->
  btp_valid cs p = false -> backend_valid cs r b = false.
Proof.
  intros cs r b p Hf Hv. unfold backend_valid. rewrite Hf, Hv. apply andb_false_r.
Qed.

(* A backend that is not in effect contributes no TLS settings. *)
Theorem C16_no_tls_from_invalid_backend :
  forall cs r b, backend_valid cs r b = false -> backend_tls cs r b = None.
Proof. intros cs r b H. unfold backend_tls. rewrite H. reflexivity. Qed.
