"""C06 check configuration."""


def setup(register, COMMON_TB):
    register(
        "C06", coq="C06", pkg="./internal/mode/static/state/graph/", test="TestVerifC06", coq_extra=["k8s", "ngx", "gen", "C04", "C17", "C01", "C02"],
        extra=[{"pkg": "./internal/mode/static/", "test": "TestVerifC06Revoke"},
               {"pkg": "./internal/mode/static/", "test": "TestVerifC06Pipe"}],
        rule="histories of ReferenceGrant store operations (upsert / update / delete) over generated worlds (one Gateway with "
             "HTTP, TLS and HTTPS listeners with certificateRefs; HTTPRoutes, GRPCRoutes, TLSRoutes with backendRefs; Services; "
             "Secrets), the real BuildGraph re-run on the same ClusterState after every operation; a systematic part "
             "(referrer kind x single-field near miss [all 2^7 masks in thorough] x named/unnamed grant x split grants) and a "
             "generated part (sizes ramp with the index, every third case hostile); non-trivial = the world has at least one "
             "cross-namespace reference and the store is non-empty after some operation; distinct = distinct (world, history, observation). Third part (TestVerifC06Pipe, evaluated by C02.Check): generated states with cross-namespace backendRefs under grants of which about half are removed or narrowed (referrer namespace, referrer kind, Service name), through the real pipeline, 40/100 requests aimed at the rules: a backend whose reference is not permitted keeps its share and that share is answered by invalid-backend-ref (500)",
        trusted_base=COMMON_TB + [
            "graph-level observation only: BackendRef.Valid=false is what the data plane answers with 500, Listener.Valid=false / "
            "ResolvedSecret=nil is what yields no server block and no key-pair file (generated files are covered by the pipeline harness)",
            "modelled, not verified: crypto/tls.X509KeyPair (a Secret carries the flag 'well-formed kubernetes.io/tls secret'); "
            "validationfakes stand for the data-plane validators (import cycle); Go map iteration over ReferenceGrants is an arbitrary "
            "order (theorem C06_order_irrelevant quantifies over it)",
            "frame of the generated inputs: valid routes (no hostname/match/filter errors), backendRef-level filters only when a start-up probe shows they do not panic (defect D1 of C05), "
            "no BackendTLSPolicy, no NginxProxy, no listener port/hostname conflicts, one Gateway",
            "that a ReferenceGrant event always triggers a rebuild (change processor) is checked by the C01 harness, not here",
        ],
        assumptions=[
            "ReferenceGrant to.name, when present, is non-empty (CRD: ObjectName minLength 1); the code treats an empty name as 'all'",
            "BuildGraph is re-run after every ReferenceGrant change (no predicate filters ReferenceGrant events)",
        ],
        timeout={"quick": 600, "thorough": 3600},
    )
