(* C18 — property theorems only.  In provisioner mode, after any history of Gateway / GatewayClass (and CRD metadata)
   events, in any batching and under any Go map iteration order:
   exactly one Deployment for each existing Gateway of the configured class and none for any other; names (= "app"
   selector labels) and --gateway= arguments pairwise distinct and determined by the id / the Gateway; GatewayClass
   statuses say Accepted=True on exactly the configured class (given supported CRD versions).

   Quantifiers: [h] every list of batches of events; [rk] every rank function per batch (decides the order in which
   the Gateways found without a Deployment receive their ids, i.e. the map iteration order); [foreign] every set of
   GatewayClasses of other controllers lying in the cluster; [gc], [sup] every configured class name / supported
   version string.  [v]: the handler variant; [v_d20 v = false] is the handler with fixes/D20.patch applied.
   D21 (panic when the configured class is absent) is a known finding of the tree as it stands: the theorems hold
   for every history outside [class_D21] — and for all histories of a handler that carries on ([v_d21 v = false]).

   The specification is read off the raw history: [gw_class revs k = Some c] — the newest event about Gateway k is an
   upsert with class c; [gc_present], [crd_unsupported] likewise ([revs] = all events, newest first). *)
From Coq Require Import List String NArith ZArith Permutation.
From NGF Require Import C18.Model C18.Proofs C18.Check C18.Sound.
Import ListNotations.

(* Exactly one Deployment per existing Gateway of the configured class, none for any other; ids unique; the
   provisions map and the cluster agree. *)
Theorem C18_one_deployment_per_gateway_holds_outside_D21 :
  forall v gc sup foreign rk h,
    v_d20 v = false -> (v_d21 v = false \/ ~ class_D21 gc h) ->
    let s := run v gc sup foreign rk h in
    st_crashed s = false /\
    (forall k, (exists d, In d (cl_deps s) /\ d_gw d = k) <-> gw_class (rev (List.concat h)) k = Some gc) /\
    NoDup (map d_gw (cl_deps s)) /\
    NoDup (map d_id (cl_deps s)) /\
    (forall k id, In (k, id) (st_prov s) <-> In (Dep id k) (cl_deps s)).
Proof. exact deployments_exact. Qed.

(* Two different Deployments have different names (the name is also the value of the "app" label in selector and
   pod template), serve different Gateways, and carry different --gateway= arguments. *)
Theorem C18_deployments_pairwise_distinct_holds_outside_D21 :
  forall v gc sup foreign rk h,
    v_d20 v = false -> (v_d21 v = false \/ ~ class_D21 gc h) ->
    let s := run v gc sup foreign rk h in
    forall d d', In d (cl_deps s) -> In d' (cl_deps s) -> d <> d' ->
      dep_name (d_id d) <> dep_name (d_id d') /\
      d_gw d <> d_gw d' /\
      (no_slash (fst (d_gw d)) = true -> no_slash (fst (d_gw d')) = true ->
       gateway_arg (d_gw d) <> gateway_arg (d_gw d')).
Proof. exact deployments_distinct. Qed.

(* Accepted=True exactly on the configured class, provided no installed Gateway API CRD has an unsupported major
   version; never two Accepted conditions on one class.  (Independent of the D20 variant.) *)
Theorem C18_only_configured_class_accepted_holds_outside_D21 :
  forall v gc sup foreign rk h,
    (v_d21 v = false \/ ~ class_D21 gc h) ->
    let s := run v gc sup foreign rk h in
    let revs := rev (List.concat h) in
    forall n g cs, In (n, (g, cs)) (cl_gcs s) ->
      (accepted cs = true <-> n = gc /\ gc_present gc revs = true /\ crd_unsupported sup revs = false) /\
      n_accepted_conds cs <= 1.
Proof. exact statuses_exact. Qed.

(* Every class delivered to the handler carries exactly one Accepted verdict; classes never delivered (other
   controllers') are never written. *)
Theorem C18_statuses_written_holds_outside_D21 :
  forall v gc sup foreign rk h,
    (v_d21 v = false \/ ~ class_D21 gc h) ->
    let s := run v gc sup foreign rk h in
    let revs := rev (List.concat h) in
    forall n g cs, In (n, (g, cs)) (cl_gcs s) ->
      (gc_present n revs = true -> n_accepted_conds cs = 1) /\ (gc_present n revs = false -> cs = []).
Proof. exact statuses_written. Qed.

(* The class of D21 is exact: the tree as it stands crashes precisely on the histories in which the configured
   GatewayClass is absent at the end of some batch. *)
Theorem C18_D21_crash_iff_class :
  forall v gc sup foreign rk h,
    v_d21 v = true -> (st_crashed (run v gc sup foreign rk h) = true <-> class_D21 gc h).
Proof. exact crash_iff. Qed.

(* D20, the tree as found: a Gateway changes its class away from the configured one and keeps its Deployment. *)
Theorem C18_D20_refuted :
  let s := run (V true true) "nginx" sup121 [] rk0 witness_D20 in
  ~ class_D21 "nginx" witness_D20 /\ st_crashed s = false /\
  exists d, In d (cl_deps s) /\ gw_class (rev (List.concat witness_D20)) (d_gw d) <> Some "nginx"%string.
Proof. exact D20_refuted. Qed.

(* D21, the tree as it stands (with D20 repaired): inside the class the handler is gone and a Deployment for a
   Gateway that no longer exists remains. *)
Theorem C18_D21_refuted :
  let s := run (V false true) "nginx" sup121 [] rk0 witness_D21 in
  class_D21 "nginx" witness_D21 /\ st_crashed s = true /\
  exists d, In d (cl_deps s) /\ gw_class (rev (List.concat witness_D21)) (d_gw d) = None.
Proof. exact D21_refuted. Qed.

(* Adequacy of the quantifier over [rk]: whatever order l' the Go map yields the Gateways l in, there is a rank
   function under which the model visits them in exactly that order. *)
Theorem C18_every_iteration_order_is_covered :
  forall l l' : list key, NoDup l' -> Permutation l l' -> sort_by (fun k => index_of k l') l = l'.
Proof. exact every_order_is_a_rank. Qed.

(* The executable oracle that bin/check applies to the implementation's observations accepts everything the model
   does (repaired D20, outside D21), at every batch boundary: oracle and theorems state the same property. *)
Theorem C18_oracle_sound :
  forall v gc sup foreign rk h,
    v_d20 v = false -> (v_d21 v = false \/ ~ Proofs.class_D21 gc h) ->
    oracle_from gc sup [] h (map render_snap (trace_from v gc sup rk 0 (init foreign) h)) = [].
Proof. exact oracle_sound. Qed.
