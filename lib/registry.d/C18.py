"""C18 check configuration."""


def setup(register, COMMON_TB):
    register(
        "C18", coq="C18", pkg="./internal/mode/provisioner/", test="TestVerifC18",
        rule="histories of GatewayClass / Gateway / CRD-metadata event batches (first batch as the first-batch preparer "
             "would deliver it, then random create / update incl. class change / delete / re-create, 1-5 events per "
             "batch; size ramps with the index; a quarter with hostile version strings, duplicate and dangling "
             "deletes); non-trivial = no crash, at least 3 batches, at least 2 Deployments ever created and a class "
             "change of an existing Gateway or a Deployment removed again; distinct = distinct (history, observations)",
        trusted_base=COMMON_TB + [
            "modelled, not verified: the controller-runtime fake client stands for the API server (Deployment create/delete, "
            "GatewayClass get + status update); the cluster change a GatewayClass event reports is applied together with "
            "the event, so every batch boundary is a quiescent point",
            "Go map iteration is an arbitrary permutation (theorems quantify over a rank function per batch; the checker "
            "reads the order off the observed Deployment ids)",
            "the oracle and the theorems share gatewayclass.parseVersionString's model (parse_version) to say what a supported "
            "CRD bundle version is; the list of the seven Gateway API CRD names is transcribed from gatewayclass/validate.go",
            "events reach the handler only for GatewayClasses of the configured controller (GatewayClassPredicate); classes of "
            "other controllers are present in the fake cluster and must stay untouched",
        ],
        assumptions=[
            "fewer than 2^63 Deployments are created by one provisioner process (gatewayNextID is an int64; the model uses N)",
            "namespaces contain no '/' (Kubernetes names), needed only for injectivity of the --gateway=<ns>/<name> argument",
            "in-process histories: a provisioner restart (ids start again at 1) is outside the statement, as the code comment says",
            "no actor other than the provisioner creates or deletes nginx-gateway-N Deployments",
            "'accepted' is read as: Accepted=True on the configured class iff no installed Gateway API CRD has an unsupported major "
            "version (design: 'given supported CRD versions'); no other class is ever Accepted=True",
        ],
        timeout={"quick": 600, "thorough": 3600},
    )
