(* C02 — the rewrite directives and the URI part of proxy_pass / return that the generator puts into a location for a rule
   with a URLRewrite or RequestRedirect filter (nginx/config/servers.go: updateLocation, createRewritesValForRewriteFilter,
   createReturnAndRewriteConfigForRedirectFilter, createProxyPass), as directive texts, and what the rewrite phase of
   ngx/EvalFwd.v makes of them.

   The location is external (entered with the request path) or internal (entered, after the njs module's internal redirect,
   with the internal location's own path). *)
From Coq Require Import List String Ascii Bool Arith.
From NGF Require Import lib.Str k8s.State ngx.Lexer ngx.Eval C02.Rewrite ngx.EvalFwd.
Import ListNotations.

Definition regex_text (r : rw) : string :=
  Str.string_of ("^"%char :: quote_meta (rw_prefix r) ++ (if rw_optslash r then tail_optslash else tail_plain)).
Definition repl_text (r : rw) : string := Str.string_of (rw_repl r ++ repl_tail).

(* a rewrite directive: its arguments *)
Definition rewrite_dir (args : list string) : dir := Dir "rewrite" args None.

(* the path modifier's main rewrite (createMainRewriteForFilters), without flag *)
Definition main_rewrite_args (pm : pathmod) (P : string) : list string :=
  match pm with
  | ReplaceFull s => ["^"%string; s]
  | ReplacePrefix R => let r := main_rewrite (Str.chars_of P) (Str.chars_of R) in [regex_text r; repl_text r]
  end.

Inductive filter_kind := KRewrite | KRedirect.

(* the rewrite directives of the location, in order *)
Definition location_rewrites (kind : filter_kind) (internal : bool) (pm : option pathmod) (P : string) : list dir :=
  match pm with
  | None => []
  | Some m =>
      (if internal then [rewrite_dir ["^"%string; "$request_uri"%string]] else []) ++
      [rewrite_dir (main_rewrite_args m P ++ match kind with KRewrite => ["break"%string] | KRedirect => [] end)]
  end.

(* proxy_pass carries $request_uri exactly when no path modifier applies; a redirect's return uses $uri exactly when one does *)
Definition uses_original_uri (pm : option pathmod) : bool := match pm with None => true | Some _ => false end.

(* the path that leaves the location: to the upstream, or into the Location header *)
Definition location_path (kind : filter_kind) (internal : bool) (pm : option pathmod) (P : string) (orig entry : string) : option string :=
  match run_rewrites orig entry (location_rewrites kind internal pm P) with
  | None => None
  | Some cur => Some (if uses_original_uri pm then orig else cur)
  end.
