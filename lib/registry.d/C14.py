"""C14 check configuration."""


def setup(register, COMMON_TB):
    register(
        "C14", coq="C14", coq_extra=["k8s", "ngx", "gen", "C04", "C17"], pkg="./internal/mode/static/", test="TestVerifC14",
        extra=[dict(pkg="./internal/mode/static/state/dataplane/", test="TestVerifC14Sort"),
               dict(pkg="./internal/mode/static/state/graph/", test="TestVerifC14Pol")],
        rule="generated cluster states with competing resources (second Gateway of the class with equal or different age, copies of Routes with the "
             "same matches and other backends, equal timestamps) are run through the real handler 4 (quick) or 8 (thorough) times with the events in "
             "different orders and batchings; Go re-randomises map iteration in each run; all runs must yield the same canonical configuration and the "
             "same (object, type, status, reason) of the conditions the final state makes the controller issue; non-trivial = at least 3 routes. Second part "
             "(TestVerifC14Sort, evaluated by C14/MatchSortCheck.v): the real sortMatchRules on the match rules of one location - 1 to 4 Routes with few distinct "
             "timestamps and namespaces, up to ~45 rules, the Routes in a random order - must leave the order the model's stable sort leaves, which must be sorted by "
             "(method, header count, query count, Route age, namespace/name, position in the Route). Third part (TestVerifC14Pol, evaluated by C14/PolConflictCheck.v): the real markConflictedPolicies "
             "on sets of 2 to 8 policies (one or two kinds, one to three of four targets each, few timestamps and namespaces, some invalid from the start, a "
             "generated conflict relation), 6 (quick) or 12 (thorough) times on freshly built maps: every run must give the verdicts of the model, all runs the same, "
             "survivors must not conflict and every loser must have lost to an older survivor",
        trusted_base=COMMON_TB + [
            "canonicalisation of generated files (C17/Check.v files_equal: top-level blocks as multisets, match keys replaced by their match lists)",
            "statuses are wiped before a final forced rebuild, so that the compared conditions are those the final state makes the controller issue "
            "(statuses of objects that stopped being handled are never cleared: documented limitation, C01)",
            "that the common result is the oldest-then-name winner is checked by the C02/C07 oracles against k8s/Spec.v",
        ],
        assumptions=["namespaces are delivered before routes (finding D2 of C05 otherwise)"],
        timeout={"quick": 900, "thorough": 7200},
    )
