(* Correspondence and oracle for the conflict resolution between policies: the REAL markConflictedPolicies, called
   several times on the same generated set of policies (Go re-randomises map iteration every time), against the model
   (code 1) and against the oracle (code 2), which is stated on the observed verdicts alone:
     - all runs give the same verdicts (a function of the cluster state only);
     - two policies valid in the end, of one kind and sharing a target, do not conflict;
     - a policy that was valid and is not any more lost to an older policy (age, then namespace/name) that is valid in
       the end, of its kind, sharing a target and conflicting with it;
     - a policy that was not valid is not valid in the end. *)
From Coq Require Import List String ZArith Bool Arith.
From NGF Require Export lib.CaseLib lib.Str lib.Order C14.PolConflict.
Import ListNotations.

Record case := PCase {
  pc_pols : list pol;
  pc_conf : list (nat * nat);
  pc_runs : list (list (nat * bool))       (* per run: (tag, valid in the end), sorted by tag *)
}.

Fixpoint tinsert (x : nat * bool) (l : list (nat * bool)) : list (nat * bool) :=
  match l with
  | [] => [x]
  | y :: l' => if Nat.leb (fst x) (fst y) then x :: y :: l' else y :: tinsert x l'
  end.
Definition tsort (l : list (nat * bool)) := fold_right tinsert [] l.

Fixpoint verdicts_eqb (a b : list (nat * bool)) : bool :=
  match a, b with
  | [], [] => true
  | (t1, b1) :: a', (t2, b2) :: b' => Nat.eqb t1 t2 && Bool.eqb b1 b2 && verdicts_eqb a' b'
  | _, _ => false
  end.

Definition verdict_of (run : list (nat * bool)) (t : nat) : bool :=
  existsb (fun e => Nat.eqb (fst e) t && snd e) run.

Definition all_equal (runs : list (list (nat * bool))) : bool :=
  match runs with [] => true | r :: rs => forallb (verdicts_eqb r) rs end.

Definition oracle_run (pols : list pol) (conf : pol -> pol -> bool) (run : list (nat * bool)) : bool :=
  let valid p := verdict_of run (p_tag p) in
  let older a b := key_lt (p_key a) (p_key b) in
  forallb (fun p =>
    if valid p then
      p_valid0 p &&
      forallb (fun w => negb (valid w && older w p && can_conflict w p && conf w p)) pols
    else
      negb (p_valid0 p) ||
      existsb (fun w => valid w && older w p && can_conflict w p && conf w p) pols) pols.

Definition check_case (c : case) : list nat :=
  let conf := conf_of (pc_conf c) in
  let expected := tsort (map (fun e => (p_tag (fst e), snd e)) (resolve conf (pc_pols c))) in
  (if forallb (verdicts_eqb expected) (pc_runs c) then [] else [code_mismatch]) ++
  (if all_equal (pc_runs c) && forallb (oracle_run (pc_pols c) conf) (pc_runs c) then [] else [code_violation]).
