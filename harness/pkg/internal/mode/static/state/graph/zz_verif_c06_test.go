//go:build verif

package graph

import (
	"crypto/ecdsa"
	"crypto/elliptic"
	"crypto/rand"
	"crypto/x509"
	"crypto/x509/pkix"
	"encoding/pem"
	"fmt"
	"math/big"
	"os"
	"sort"
	"strconv"
	"strings"
	"testing"
	"time"

	apiv1 "k8s.io/api/core/v1"
	metav1 "k8s.io/apimachinery/pkg/apis/meta/v1"
	"k8s.io/apimachinery/pkg/types"
	gatewayv1 "sigs.k8s.io/gateway-api/apis/v1"
	"sigs.k8s.io/gateway-api/apis/v1alpha2"
	"sigs.k8s.io/gateway-api/apis/v1beta1"

	"github.com/nginx/nginx-gateway-fabric/internal/framework/conditions"
	"github.com/nginx/nginx-gateway-fabric/internal/mode/static/state/validation"
	"github.com/nginx/nginx-gateway-fabric/internal/mode/static/state/validation/validationfakes"
	vu "github.com/nginx/nginx-gateway-fabric/internal/verifutil"
)

// C06: drive the real BuildGraph on generated cluster states: one Gateway (HTTP, TLS-passthrough and HTTPS
// listeners with certificateRefs), HTTPRoutes / GRPCRoutes / TLSRoutes with backendRefs, Services, Secrets, and a
// HISTORY of ReferenceGrant stores (upserts and deletes, near misses in every field).  After every step the graph
// is rebuilt from the same ClusterState value (same object pointers, as the change processor does) and observed:
// per listener Valid / ResolvedSecret / conditions, per route and backendRef Valid / SvcNsName / port / weight
// and the route conditions, and the keys of ReferencedSecrets and ReferencedServices.
//
// Kept out of the generated inputs (see coq/C06/Model.v): BackendTLSPolicies, NginxProxy, invalid
// hostnames/matches/rule filters, listener port conflicts.  backendRef-level filters are generated only when a probe
// shows that they do not panic (defect D1 of C05 on older trees).

const (
	c06Class      = "nginx"
	c06Controller = "gateway.nginx.org/verif"
	c06GwName     = "gw"
	c06GwGroup    = "gateway.networking.k8s.io"
)

type c06From struct{ Group, Kind, Ns string }

type c06To struct {
	Group, Kind string
	Name        *string
}

type c06Grant struct {
	Ns, Name string
	From     []c06From
	To       []c06To
}

type c06BackendRef struct {
	Group, Kind *string
	Name        string
	Ns          *string
	Port        *int32
	Weight      *int32
	Filters     bool // carries one backendRef-level filter (HTTPRoute / GRPCRoute only)
}

type c06Route struct {
	Kind     int // 0 HTTPRoute, 1 GRPCRoute, 2 TLSRoute
	Ns, Name string
	Rules    [][]c06BackendRef
}

type c06CertRef struct {
	Group, Kind *string
	Name        string
	Ns          *string
}

type c06Listener struct {
	Name  string
	Proto int // 0 HTTP, 1 HTTPS, 2 TLS
	Certs []c06CertRef
}

type c06Svc struct {
	Ns, Name string
	Ports    []int32
}

type c06Secret struct {
	Ns, Name string
	Kind     int // 0 well-formed kubernetes.io/tls, 1 Opaque, 2 kubernetes.io/tls with garbage
}

type c06World struct {
	GwNs      string
	Listeners []c06Listener
	Routes    []c06Route
	Svcs      []c06Svc
	Secrets   []c06Secret
}

type c06Cond struct{ Type, Status, Reason string }

type c06BrefOut struct {
	Valid   bool
	SvcNs   string
	SvcName string
	Port    int32
	Weight  int32
}

type c06RouteOut struct {
	Present bool
	Valid   bool
	Refs    [][]c06BrefOut
	Conds   []c06Cond
}

type c06LisOut struct {
	Name   string
	Valid  bool
	Secret *types.NamespacedName
	Conds  []c06Cond
}

type c06Obs struct {
	Listeners   []c06LisOut
	Routes      []c06RouteOut
	RefSecrets  []types.NamespacedName
	RefServices []types.NamespacedName
}

type c06Step struct {
	Op     string
	Grants []c06Grant // content of the store after the operation (sorted by key)
	Obs    c06Obs
}

// ------------------------------------------------------------------------------------------------ key pair

var c06Cert, c06Key []byte

func c06MakeKeyPair() {
	priv, err := ecdsa.GenerateKey(elliptic.P256(), rand.Reader)
	if err != nil {
		panic(err)
	}
	tmpl := &x509.Certificate{
		SerialNumber: big.NewInt(1), Subject: pkix.Name{CommonName: "c06.example.com"},
		NotBefore: time.Unix(0, 0), NotAfter: time.Unix(1<<33, 0), DNSNames: []string{"c06.example.com"},
	}
	der, err := x509.CreateCertificate(rand.Reader, tmpl, tmpl, &priv.PublicKey, priv)
	if err != nil {
		panic(err)
	}
	kder, err := x509.MarshalECPrivateKey(priv)
	if err != nil {
		panic(err)
	}
	c06Cert = pem.EncodeToMemory(&pem.Block{Type: "CERTIFICATE", Bytes: der})
	c06Key = pem.EncodeToMemory(&pem.Block{Type: "EC PRIVATE KEY", Bytes: kder})
}

// ------------------------------------------------------------------------------------------------ objects

func c06P[T any](v T) *T { return &v }

func c06Group(s *string) *gatewayv1.Group {
	if s == nil {
		return nil
	}
	return c06P(gatewayv1.Group(*s))
}

func c06Kind(s *string) *gatewayv1.Kind {
	if s == nil {
		return nil
	}
	return c06P(gatewayv1.Kind(*s))
}

func c06Ns(s *string) *gatewayv1.Namespace {
	if s == nil {
		return nil
	}
	return c06P(gatewayv1.Namespace(*s))
}

func c06BackendRefObj(b c06BackendRef) gatewayv1.BackendRef {
	br := gatewayv1.BackendRef{
		BackendObjectReference: gatewayv1.BackendObjectReference{
			Group: c06Group(b.Group), Kind: c06Kind(b.Kind), Name: gatewayv1.ObjectName(b.Name), Namespace: c06Ns(b.Ns),
		},
		Weight: b.Weight,
	}
	if b.Port != nil {
		br.Port = c06P(gatewayv1.PortNumber(*b.Port))
	}
	return br
}

func c06GrantObj(g c06Grant) *v1beta1.ReferenceGrant {
	rg := &v1beta1.ReferenceGrant{ObjectMeta: metav1.ObjectMeta{Namespace: g.Ns, Name: g.Name}}
	for _, f := range g.From {
		rg.Spec.From = append(rg.Spec.From, v1beta1.ReferenceGrantFrom{
			Group: gatewayv1.Group(f.Group), Kind: gatewayv1.Kind(f.Kind), Namespace: gatewayv1.Namespace(f.Ns),
		})
	}
	for _, t := range g.To {
		to := v1beta1.ReferenceGrantTo{Group: gatewayv1.Group(t.Group), Kind: gatewayv1.Kind(t.Kind)}
		if t.Name != nil {
			to.Name = c06P(gatewayv1.ObjectName(*t.Name))
		}
		rg.Spec.To = append(rg.Spec.To, to)
	}
	return rg
}

func c06BuildState(w c06World) ClusterState {
	st := ClusterState{
		GatewayClasses:  map[types.NamespacedName]*gatewayv1.GatewayClass{},
		Gateways:        map[types.NamespacedName]*gatewayv1.Gateway{},
		HTTPRoutes:      map[types.NamespacedName]*gatewayv1.HTTPRoute{},
		GRPCRoutes:      map[types.NamespacedName]*gatewayv1.GRPCRoute{},
		TLSRoutes:       map[types.NamespacedName]*v1alpha2.TLSRoute{},
		Services:        map[types.NamespacedName]*apiv1.Service{},
		Namespaces:      map[types.NamespacedName]*apiv1.Namespace{},
		ReferenceGrants: map[types.NamespacedName]*v1beta1.ReferenceGrant{},
		Secrets:         map[types.NamespacedName]*apiv1.Secret{},
	}
	st.GatewayClasses[types.NamespacedName{Name: c06Class}] = &gatewayv1.GatewayClass{
		ObjectMeta: metav1.ObjectMeta{Name: c06Class},
		Spec:       gatewayv1.GatewayClassSpec{ControllerName: c06Controller},
	}
	gw := &gatewayv1.Gateway{
		ObjectMeta: metav1.ObjectMeta{Namespace: w.GwNs, Name: c06GwName},
		Spec:       gatewayv1.GatewaySpec{GatewayClassName: c06Class},
	}
	allNs := &gatewayv1.AllowedRoutes{Namespaces: &gatewayv1.RouteNamespaces{From: c06P(gatewayv1.NamespacesFromAll)}}
	for _, l := range w.Listeners {
		gl := gatewayv1.Listener{Name: gatewayv1.SectionName(l.Name), AllowedRoutes: allNs}
		switch l.Proto {
		case 0:
			gl.Protocol, gl.Port = gatewayv1.HTTPProtocolType, 80
		case 1:
			gl.Protocol, gl.Port = gatewayv1.HTTPSProtocolType, 443
			gl.TLS = &gatewayv1.GatewayTLSConfig{Mode: c06P(gatewayv1.TLSModeTerminate)}
			for _, c := range l.Certs {
				gl.TLS.CertificateRefs = append(gl.TLS.CertificateRefs, gatewayv1.SecretObjectReference{
					Group: c06Group(c.Group), Kind: c06Kind(c.Kind), Name: gatewayv1.ObjectName(c.Name), Namespace: c06Ns(c.Ns),
				})
			}
		default:
			gl.Protocol, gl.Port = gatewayv1.TLSProtocolType, 8443
			gl.TLS = &gatewayv1.GatewayTLSConfig{Mode: c06P(gatewayv1.TLSModePassthrough)}
		}
		gw.Spec.Listeners = append(gw.Spec.Listeners, gl)
	}
	st.Gateways[types.NamespacedName{Namespace: w.GwNs, Name: c06GwName}] = gw

	parent := func(section string) []gatewayv1.ParentReference {
		return []gatewayv1.ParentReference{{
			Namespace: c06P(gatewayv1.Namespace(w.GwNs)), Name: c06GwName, SectionName: c06P(gatewayv1.SectionName(section)),
		}}
	}
	for _, r := range w.Routes {
		key := types.NamespacedName{Namespace: r.Ns, Name: r.Name}
		meta := metav1.ObjectMeta{Namespace: r.Ns, Name: r.Name}
		switch r.Kind {
		case 0:
			hr := &gatewayv1.HTTPRoute{ObjectMeta: meta}
			hr.Spec.ParentRefs = parent("http")
			for i, rule := range r.Rules {
				hrule := gatewayv1.HTTPRouteRule{Matches: []gatewayv1.HTTPRouteMatch{{
					Path: &gatewayv1.HTTPPathMatch{Type: c06P(gatewayv1.PathMatchPathPrefix), Value: c06P("/r" + strconv.Itoa(i))},
				}}}
				for _, b := range rule {
					hb := gatewayv1.HTTPBackendRef{BackendRef: c06BackendRefObj(b)}
					if b.Filters {
						hb.Filters = []gatewayv1.HTTPRouteFilter{{
							Type: gatewayv1.HTTPRouteFilterRequestHeaderModifier,
							RequestHeaderModifier: &gatewayv1.HTTPHeaderFilter{
								Set: []gatewayv1.HTTPHeader{{Name: "X-C06", Value: "1"}},
							},
						}}
					}
					hrule.BackendRefs = append(hrule.BackendRefs, hb)
				}
				hr.Spec.Rules = append(hr.Spec.Rules, hrule)
			}
			st.HTTPRoutes[key] = hr
		case 1:
			gr := &gatewayv1.GRPCRoute{ObjectMeta: meta}
			gr.Spec.ParentRefs = parent("http")
			for i, rule := range r.Rules {
				grule := gatewayv1.GRPCRouteRule{Matches: []gatewayv1.GRPCRouteMatch{{
					Method: &gatewayv1.GRPCMethodMatch{Type: c06P(gatewayv1.GRPCMethodMatchExact), Service: c06P("svc" + strconv.Itoa(i)), Method: c06P("M")},
				}}}
				for _, b := range rule {
					gb := gatewayv1.GRPCBackendRef{BackendRef: c06BackendRefObj(b)}
					if b.Filters {
						gb.Filters = []gatewayv1.GRPCRouteFilter{{
							Type: gatewayv1.GRPCRouteFilterRequestHeaderModifier,
							RequestHeaderModifier: &gatewayv1.HTTPHeaderFilter{
								Set: []gatewayv1.HTTPHeader{{Name: "X-C06", Value: "1"}},
							},
						}}
					}
					grule.BackendRefs = append(grule.BackendRefs, gb)
				}
				gr.Spec.Rules = append(gr.Spec.Rules, grule)
			}
			st.GRPCRoutes[key] = gr
		default:
			tr := &v1alpha2.TLSRoute{ObjectMeta: meta}
			tr.Spec.ParentRefs = parent("tls")
			tr.Spec.Hostnames = []gatewayv1.Hostname{gatewayv1.Hostname(r.Name + ".example.com")}
			for _, rule := range r.Rules {
				trule := v1alpha2.TLSRouteRule{}
				for _, b := range rule {
					trule.BackendRefs = append(trule.BackendRefs, c06BackendRefObj(b))
				}
				tr.Spec.Rules = append(tr.Spec.Rules, trule)
			}
			st.TLSRoutes[key] = tr
		}
	}
	for _, s := range w.Svcs {
		svc := &apiv1.Service{ObjectMeta: metav1.ObjectMeta{Namespace: s.Ns, Name: s.Name}}
		for i, p := range s.Ports {
			svc.Spec.Ports = append(svc.Spec.Ports, apiv1.ServicePort{Name: "p" + strconv.Itoa(i), Port: p})
		}
		st.Services[types.NamespacedName{Namespace: s.Ns, Name: s.Name}] = svc
	}
	for _, s := range w.Secrets {
		sec := &apiv1.Secret{ObjectMeta: metav1.ObjectMeta{Namespace: s.Ns, Name: s.Name}}
		switch s.Kind {
		case 0:
			sec.Type = apiv1.SecretTypeTLS
			sec.Data = map[string][]byte{apiv1.TLSCertKey: c06Cert, apiv1.TLSPrivateKeyKey: c06Key}
		case 1:
			sec.Type = apiv1.SecretTypeOpaque
			sec.Data = map[string][]byte{apiv1.TLSCertKey: c06Cert, apiv1.TLSPrivateKeyKey: c06Key}
		default:
			sec.Type = apiv1.SecretTypeTLS
			sec.Data = map[string][]byte{apiv1.TLSCertKey: []byte("garbage"), apiv1.TLSPrivateKeyKey: []byte("garbage")}
		}
		st.Secrets[types.NamespacedName{Namespace: s.Ns, Name: s.Name}] = sec
	}
	for _, ns := range c06NsPool {
		st.Namespaces[types.NamespacedName{Name: ns}] = &apiv1.Namespace{ObjectMeta: metav1.ObjectMeta{Name: ns}}
	}
	return st
}

// ------------------------------------------------------------------------------------------------ observation

func c06Conds(cs []conditions.Condition) []c06Cond {
	out := make([]c06Cond, 0, len(cs))
	for _, c := range cs {
		out = append(out, c06Cond{c.Type, string(c.Status), c.Reason})
	}
	return out
}

func c06Bref(b BackendRef) c06BrefOut {
	return c06BrefOut{b.Valid, b.SvcNsName.Namespace, b.SvcNsName.Name, b.ServicePort.Port, b.Weight}
}

func c06SortedKeys[V any](m map[types.NamespacedName]V) []types.NamespacedName {
	keys := make([]types.NamespacedName, 0, len(m))
	for k := range m {
		keys = append(keys, k)
	}
	sort.Slice(keys, func(i, j int) bool { return keys[i].String() < keys[j].String() })
	return keys
}

func c06Observe(w c06World, st ClusterState) c06Obs {
	g := BuildGraph(st, c06Controller, c06Class, nil, validation.Validators{
		HTTPFieldsValidator: &validationfakes.FakeHTTPFieldsValidator{},
		GenericValidator:    &validationfakes.FakeGenericValidator{},
		PolicyValidator:     &validationfakes.FakePolicyValidator{},
	}, ProtectedPorts{})
	var obs c06Obs
	if g.Gateway != nil {
		for _, l := range g.Gateway.Listeners {
			lo := c06LisOut{Name: l.Name, Valid: l.Valid, Conds: c06Conds(l.Conditions)}
			if l.ResolvedSecret != nil {
				s := *l.ResolvedSecret
				lo.Secret = &s
			}
			obs.Listeners = append(obs.Listeners, lo)
		}
	}
	for _, r := range w.Routes {
		key := types.NamespacedName{Namespace: r.Ns, Name: r.Name}
		var ro c06RouteOut
		switch r.Kind {
		case 0, 1:
			rt := RouteTypeHTTP
			if r.Kind == 1 {
				rt = RouteTypeGRPC
			}
			if l7, ok := g.Routes[RouteKey{NamespacedName: key, RouteType: rt}]; ok && l7 != nil {
				ro.Present, ro.Valid, ro.Conds = true, l7.Valid, c06Conds(l7.Conditions)
				for _, rule := range l7.Spec.Rules {
					refs := []c06BrefOut{}
					for _, b := range rule.BackendRefs {
						refs = append(refs, c06Bref(b))
					}
					ro.Refs = append(ro.Refs, refs)
				}
			}
		default:
			if l4, ok := g.L4Routes[L4RouteKey{NamespacedName: key}]; ok && l4 != nil {
				ro.Present, ro.Valid, ro.Conds = true, l4.Valid, c06Conds(l4.Conditions)
				ro.Refs = [][]c06BrefOut{{c06Bref(l4.Spec.BackendRef)}}
			}
		}
		obs.Routes = append(obs.Routes, ro)
	}
	obs.RefSecrets = c06SortedKeys(g.ReferencedSecrets)
	obs.RefServices = c06SortedKeys(g.ReferencedServices)
	return obs
}

// ------------------------------------------------------------------------------------------------ Coq terms

func c06OptStr(s *string) string { return vu.OptStr(s) }

func c06NsName(ns, name string) string { return vu.Pair(vu.Str(ns), vu.Str(name)) }

func c06OptZ(p *int32) string {
	if p == nil {
		return "None"
	}
	return vu.Some(vu.Z(int64(*p)))
}

func c06GrantTerm(g c06Grant) string {
	var fs, ts []string
	for _, f := range g.From {
		fs = append(fs, vu.App("GF", vu.Str(f.Group), vu.Str(f.Kind), vu.Str(f.Ns)))
	}
	for _, t := range g.To {
		ts = append(ts, vu.App("GT", vu.Str(t.Group), vu.Str(t.Kind), c06OptStr(t.Name)))
	}
	return vu.App("Grant", vu.Str(g.Ns), vu.Str(g.Name), vu.List(fs), vu.List(ts))
}

func c06WorldTerm(w c06World) string {
	var ls, rs, svcs, secs []string
	for _, l := range w.Listeners {
		var cs []string
		for _, c := range l.Certs {
			cs = append(cs, vu.App("CR", c06OptStr(c.Group), c06OptStr(c.Kind), vu.Str(c.Name), c06OptStr(c.Ns)))
		}
		ls = append(ls, vu.App("LI", vu.Str(l.Name), []string{"PHTTP", "PHTTPS", "PTLS"}[l.Proto], vu.List(cs)))
	}
	for _, r := range w.Routes {
		var rules []string
		for _, rule := range r.Rules {
			var bs []string
			for _, b := range rule {
				bs = append(bs, vu.App("BR", c06OptStr(b.Group), c06OptStr(b.Kind), vu.Str(b.Name), c06OptStr(b.Ns),
					c06OptZ(b.Port), c06OptZ(b.Weight), vu.Bool(b.Filters && r.Kind != 2)))
			}
			rules = append(rules, vu.List(bs))
		}
		rs = append(rs, vu.App("RI", []string{"KHTTP", "KGRPC", "KTLS"}[r.Kind], vu.Str(r.Ns), vu.Str(r.Name), vu.List(rules)))
	}
	for _, s := range w.Svcs {
		var ps []string
		for _, p := range s.Ports {
			ps = append(ps, vu.Z(int64(p)))
		}
		svcs = append(svcs, vu.Pair(c06NsName(s.Ns, s.Name), vu.List(ps)))
	}
	for _, s := range w.Secrets {
		secs = append(secs, vu.Pair(c06NsName(s.Ns, s.Name), vu.Bool(s.Kind == 0)))
	}
	return vu.App("World", vu.Str(w.GwNs), vu.List(ls), vu.List(rs), vu.List(svcs), vu.List(secs))
}

func c06CondsTerm(cs []c06Cond) string {
	var out []string
	for _, c := range cs {
		out = append(out, vu.Tuple(vu.Str(c.Type), vu.Str(c.Status), vu.Str(c.Reason)))
	}
	return vu.List(out)
}

func c06ObsTerm(o c06Obs) string {
	var ls, rs, secs, svcs []string
	for _, l := range o.Listeners {
		sec := "None"
		if l.Secret != nil {
			sec = vu.Some(c06NsName(l.Secret.Namespace, l.Secret.Name))
		}
		ls = append(ls, vu.App("LO", vu.Str(l.Name), vu.Bool(l.Valid), sec, c06CondsTerm(l.Conds)))
	}
	for _, r := range o.Routes {
		var rules []string
		for _, rule := range r.Refs {
			var bs []string
			for _, b := range rule {
				bs = append(bs, vu.App("BO", vu.Bool(b.Valid), c06NsName(b.SvcNs, b.SvcName), vu.Z(int64(b.Port)), vu.Z(int64(b.Weight))))
			}
			rules = append(rules, vu.List(bs))
		}
		// a route that is absent from the graph is reported as invalid with no rules (the model never says that)
		rs = append(rs, vu.App("RO", vu.Bool(r.Present && r.Valid), vu.List(rules), c06CondsTerm(r.Conds)))
	}
	for _, s := range o.RefSecrets {
		secs = append(secs, c06NsName(s.Namespace, s.Name))
	}
	for _, s := range o.RefServices {
		svcs = append(svcs, c06NsName(s.Namespace, s.Name))
	}
	return vu.App("Obs", vu.List(ls), vu.List(rs), vu.List(secs), vu.List(svcs))
}

// ------------------------------------------------------------------------------------------------ generators

var (
	c06NsPool     = []string{"ns-a", "ns-b", "ns-c"}
	c06SvcNames   = []string{"svc1", "svc2"}
	c06SecNames   = []string{"sec1", "sec2"}
	c06RouteKinds = []string{"HTTPRoute", "GRPCRoute", "TLSRoute"}
	c06AllKinds   = []string{"Gateway", "HTTPRoute", "GRPCRoute", "TLSRoute"}
)

func c06Pick(r *vu.Rng, xs []string) string { return xs[r.Intn(len(xs))] }

// c06FiltersOK: backendRef-level filters can be generated (on trees with defect D1 of C05 they panic in
// processHTTPRouteRule / processGRPCRouteRule before any reference is looked at; probed at start).
var c06FiltersOK bool

func c06ProbeFilters() (ok bool) {
	defer func() {
		if recover() != nil {
			ok = false
		}
	}()
	w := c06World{GwNs: "ns-a", Listeners: []c06Listener{{Name: "http", Proto: 0}}}
	for k := 0; k < 2; k++ {
		w.Routes = append(w.Routes, c06Route{Kind: k, Ns: "ns-a", Name: "probe" + strconv.Itoa(k),
			Rules: [][]c06BackendRef{{{Name: "svc1", Port: c06P(int32(80)), Filters: true}}}})
	}
	c06Observe(w, c06BuildState(w))
	return true
}

// c06OptPick: nil with probability 1/den, else a pool element.
func c06OptNs(r *vu.Rng, local string, hostile bool) *string {
	switch k := r.Intn(10); {
	case k < 2:
		return nil
	case k < 4:
		return c06P(local)
	case k == 9 && hostile:
		return c06P([]string{"", "NS-B", "ns-b ", "ns-d"}[r.Intn(4)])
	default:
		return c06P(c06Pick(r, c06NsPool))
	}
}

func c06GenBackendRef(r *vu.Rng, routeNs string, hostile bool) c06BackendRef {
	b := c06BackendRef{Name: c06Pick(r, c06SvcNames), Ns: c06OptNs(r, routeNs, hostile), Port: c06P(int32(80))}
	switch r.Intn(12) {
	case 0:
		b.Group = c06P("")
	case 1:
		b.Group = c06P("core")
	case 2:
		if hostile {
			b.Group = c06P([]string{"apps", "gateway.networking.k8s.io", "Core"}[r.Intn(3)])
		}
	}
	switch r.Intn(12) {
	case 0, 1, 2:
		b.Kind = c06P("Service")
	case 3:
		if hostile {
			b.Kind = c06P([]string{"Secret", "service", "ServiceImport"}[r.Intn(3)])
		}
	}
	switch r.Intn(14) {
	case 0:
		b.Port = c06P(int32(8080))
	case 1:
		b.Port = c06P(int32(81))
	case 2:
		if hostile {
			b.Port = nil
		}
	}
	switch r.Intn(10) {
	case 0:
		b.Weight = c06P(int32(1))
	case 1:
		b.Weight = c06P(int32(r.Intn(100)))
	case 2:
		b.Weight = c06P(int32(0))
	case 3:
		if hostile {
			b.Weight = c06P([]int32{-1, 1000001, 1000000}[r.Intn(3)])
		}
	}
	if hostile && r.Chance(1, 25) {
		b.Name = []string{"svc3", "svc", "SVC1"}[r.Intn(3)]
	}
	return b
}

func c06GenCertRef(r *vu.Rng, gwNs string, hostile bool) c06CertRef {
	c := c06CertRef{Name: c06Pick(r, c06SecNames), Ns: c06OptNs(r, gwNs, hostile)}
	switch r.Intn(12) {
	case 0, 1:
		c.Group = c06P("")
	case 2:
		if hostile {
			c.Group = c06P([]string{"core", "v1", "gateway.networking.k8s.io"}[r.Intn(3)])
		}
	}
	switch r.Intn(12) {
	case 0, 1, 2, 3:
		c.Kind = c06P("Secret")
	case 4:
		if hostile {
			c.Kind = c06P([]string{"ConfigMap", "secret", "Service"}[r.Intn(3)])
		}
	}
	if hostile && r.Chance(1, 25) {
		c.Name = []string{"sec3", "sec", "SEC1"}[r.Intn(3)]
	}
	return c
}

func c06GenWorld(r *vu.Rng, size int, hostile bool) c06World {
	w := c06World{GwNs: c06Pick(r, c06NsPool)}
	w.Listeners = append(w.Listeners, c06Listener{Name: "http", Proto: 0}, c06Listener{Name: "tls", Proto: 2})
	nl := r.Range(0, 1+size/2)
	for i := 0; i < nl; i++ {
		l := c06Listener{Name: "https" + strconv.Itoa(i), Proto: 1}
		nc := 1
		if hostile && r.Chance(1, 10) {
			nc = []int{0, 2, 2}[r.Intn(3)]
		}
		for j := 0; j < nc; j++ {
			l.Certs = append(l.Certs, c06GenCertRef(r, w.GwNs, hostile))
		}
		w.Listeners = append(w.Listeners, l)
	}
	r.Shuffle(len(w.Listeners), func(i, j int) { w.Listeners[i], w.Listeners[j] = w.Listeners[j], w.Listeners[i] })
	nr := r.Range(0, 1+size/2)
	if nl == 0 && nr == 0 {
		nr = 1
	}
	for i := 0; i < nr; i++ {
		rt := c06Route{Kind: r.Intn(3), Ns: c06Pick(r, c06NsPool), Name: "r" + strconv.Itoa(i)}
		nrules := 1 + r.Intn(1+size/3)
		if nrules > 3 {
			nrules = 3
		}
		if rt.Kind == 2 {
			nrules = 1
			if hostile && r.Chance(1, 8) {
				nrules = []int{0, 2}[r.Intn(2)]
			}
		}
		for j := 0; j < nrules; j++ {
			nb := 1 + r.Intn(2)
			if rt.Kind == 2 {
				nb = 1
				if hostile && r.Chance(1, 8) {
					nb = []int{0, 2}[r.Intn(2)]
				}
			} else if r.Chance(1, 10) {
				nb = []int{0, 3}[r.Intn(2)]
			}
			rule := []c06BackendRef{}
			for k := 0; k < nb; k++ {
				b := c06GenBackendRef(r, rt.Ns, hostile)
				if c06FiltersOK && rt.Kind != 2 && r.Chance(1, 12) {
					b.Filters = true
				}
				rule = append(rule, b)
			}
			rt.Rules = append(rt.Rules, rule)
		}
		w.Routes = append(w.Routes, rt)
	}
	for _, ns := range c06NsPool {
		for _, n := range c06SvcNames {
			if r.Chance(5, 6) {
				ports := []int32{80}
				if r.Bool() {
					ports = []int32{8080, 80}
				}
				if r.Chance(1, 12) {
					ports = []int32{8080}
				}
				w.Svcs = append(w.Svcs, c06Svc{ns, n, ports})
			}
		}
		for _, n := range c06SecNames {
			if r.Chance(5, 6) {
				kind := 0
				if r.Chance(1, 8) {
					kind = 1 + r.Intn(2)
				}
				w.Secrets = append(w.Secrets, c06Secret{ns, n, kind})
			}
		}
	}
	return w
}

// c06XRef is one cross-namespace reference of a world: who refers (kind, namespace) to what (kind, ns, name).
type c06XRef struct {
	FromKind, FromNs string
	ToKind, ToNs     string
	ToName           string
}

func c06CrossRefs(w c06World) []c06XRef {
	var out []c06XRef
	for _, l := range w.Listeners {
		for _, c := range l.Certs {
			if c.Ns != nil && *c.Ns != w.GwNs {
				out = append(out, c06XRef{"Gateway", w.GwNs, "Secret", *c.Ns, c.Name})
			}
		}
	}
	for _, rt := range w.Routes {
		for _, rule := range rt.Rules {
			for _, b := range rule {
				if b.Ns != nil && *b.Ns != rt.Ns {
					out = append(out, c06XRef{c06RouteKinds[rt.Kind], rt.Ns, "Service", *b.Ns, b.Name})
				}
			}
		}
	}
	return out
}

// near-miss fields of a grant built for a cross-namespace reference
const (
	c06MLoc       = 1 << iota // grant lives in the referrer's namespace instead of the target's
	c06MFromGroup             // from.group is not gateway.networking.k8s.io
	c06MFromKind              // from.kind names another referrer kind
	c06MFromNs                // from.namespace is not the referrer's namespace
	c06MToGroup               // to.group is neither "" nor "core"
	c06MToKind                // to.kind is the other target kind
	c06MToName                // to.name names another object
	c06MAll       = 1<<iota - 1
)

var c06MaskNames = []string{"location", "from.group", "from.kind", "from.ns", "to.group", "to.kind", "to.name"}

func c06MaskLabel(mask int) string {
	if mask == 0 {
		return "exact"
	}
	var parts []string
	for i, n := range c06MaskNames {
		if mask&(1<<i) != 0 {
			parts = append(parts, n)
		}
	}
	return strings.Join(parts, "+")
}

func c06OtherNs(r *vu.Rng, not ...string) string {
	for {
		ns := c06Pick(r, c06NsPool)
		ok := true
		for _, n := range not {
			if n == ns {
				ok = false
			}
		}
		if ok {
			return ns
		}
	}
}

// c06GrantFor builds the grant that permits x, with the fields selected by mask made to miss.
// named: restrict to.name to the target (else all objects of the kind); variant picks among equivalent/hostile spellings.
func c06GrantFor(r *vu.Rng, x c06XRef, mask int, named bool, name string) c06Grant {
	g := c06Grant{Ns: x.ToNs, Name: name}
	if mask&c06MLoc != 0 {
		g.Ns = x.FromNs
		if r.Chance(1, 3) {
			g.Ns = c06OtherNs(r, x.ToNs)
		}
	}
	f := c06From{c06GwGroup, x.FromKind, x.FromNs}
	if mask&c06MFromGroup != 0 {
		f.Group = []string{"", "core", "gateway.networking.k8s.io/v1", "Gateway.networking.k8s.io", "gateway.nginx.org"}[r.Intn(5)]
	}
	if mask&c06MFromKind != 0 {
		for {
			f.Kind = c06Pick(r, append([]string{strings.ToLower(x.FromKind), "Route"}, c06AllKinds...))
			if f.Kind != x.FromKind {
				break
			}
		}
	}
	if mask&c06MFromNs != 0 {
		f.Ns = x.ToNs
		if r.Chance(1, 3) {
			f.Ns = []string{"", strings.ToUpper(x.FromNs), x.FromNs + "x"}[r.Intn(3)]
		}
	}
	t := c06To{Group: []string{"", "core"}[r.Intn(2)], Kind: x.ToKind}
	if mask&c06MToGroup != 0 {
		t.Group = []string{c06GwGroup, "v1", "Core", "apps"}[r.Intn(4)]
	}
	if mask&c06MToKind != 0 {
		other := "Service"
		if x.ToKind == "Service" {
			other = "Secret"
		}
		t.Kind = []string{other, strings.ToLower(x.ToKind), "ConfigMap"}[r.Intn(3)]
	}
	if named {
		t.Name = c06P(x.ToName)
	}
	if mask&c06MToName != 0 {
		t.Name = c06P([]string{x.ToName + "x", "svc1", "sec1", "svc2", "sec2", strings.ToUpper(x.ToName)}[r.Intn(6)])
		if *t.Name == x.ToName {
			t.Name = c06P(x.ToName + "-other")
		}
	}
	g.From, g.To = []c06From{f}, []c06To{t}
	return g
}

// c06NoiseGrant is an unrelated or partially related grant; may have several from/to entries.
func c06NoiseGrant(r *vu.Rng, name string) c06Grant {
	g := c06Grant{Ns: c06Pick(r, c06NsPool), Name: name}
	nf, nt := 1+r.Intn(2), 1+r.Intn(2)
	for i := 0; i < nf; i++ {
		g.From = append(g.From, c06From{c06GwGroup, c06Pick(r, c06AllKinds), c06Pick(r, c06NsPool)})
	}
	for i := 0; i < nt; i++ {
		t := c06To{Group: []string{"", "core", "", "apps"}[r.Intn(4)], Kind: []string{"Secret", "Service"}[r.Intn(2)]}
		if r.Bool() {
			t.Name = c06P(c06Pick(r, append(append([]string{}, c06SvcNames...), c06SecNames...)))
		}
		g.To = append(g.To, t)
	}
	return g
}

// c06SplitGrants: the two halves of a permitting grant put into two different grants (must NOT permit):
// grant A has the right from and an unrelated to, grant B an unrelated from and the right to.
func c06SplitGrants(r *vu.Rng, x c06XRef) []c06Grant {
	good := c06GrantFor(r, x, 0, r.Bool(), "split-a")
	otherTo := c06To{Group: "", Kind: x.ToKind, Name: c06P(x.ToName + "-zzz")}
	otherFrom := c06From{c06GwGroup, x.FromKind, c06OtherNs(r, x.FromNs)}
	a := c06Grant{Ns: good.Ns, Name: "split-a", From: good.From, To: []c06To{otherTo}}
	b := c06Grant{Ns: good.Ns, Name: "split-b", From: []c06From{otherFrom}, To: good.To}
	return []c06Grant{a, b}
}

// ------------------------------------------------------------------------------------------------ the run

type c06Op struct {
	Upsert *c06Grant
	Delete *types.NamespacedName
}

func (o c06Op) String() string {
	if o.Upsert != nil {
		return fmt.Sprintf("upsert %s/%s", o.Upsert.Ns, o.Upsert.Name)
	}
	return "delete " + o.Delete.String()
}

func c06IsCross(w c06World) bool { return len(c06CrossRefs(w)) > 0 }

func TestVerifC06(t *testing.T) {
	out := vu.Open("C06")
	c06MakeKeyPair()
	c06FiltersOK = c06ProbeFilters()
	out.Extra("backendref_filters_exercised", c06FiltersOK)
	rng := vu.NewRng(out.Seed ^ 0xC06)

	emit := func(kind string, w c06World, ops []c06Op) {
		st := c06BuildState(w)
		store := map[types.NamespacedName]c06Grant{}
		var steps []c06Step
		var stepTerms []string
		anyGrant := false
		for _, op := range ops {
			// the same ClusterState value (same maps, same object pointers) is rebuilt after every store operation
			if op.Upsert != nil {
				k := types.NamespacedName{Namespace: op.Upsert.Ns, Name: op.Upsert.Name}
				store[k] = *op.Upsert
				st.ReferenceGrants[k] = c06GrantObj(*op.Upsert)
			} else {
				delete(store, *op.Delete)
				delete(st.ReferenceGrants, *op.Delete)
			}
			var gs []c06Grant
			var gts []string
			for _, k := range c06SortedKeys(store) {
				gs = append(gs, store[k])
				gts = append(gts, c06GrantTerm(store[k]))
			}
			if len(gs) > 0 {
				anyGrant = true
			}
			obs := c06Observe(w, st)
			steps = append(steps, c06Step{Op: op.String(), Grants: gs, Obs: obs})
			stepTerms = append(stepTerms, vu.Pair(vu.List(gts), c06ObsTerm(obs)))
		}
		term := vu.Pair(c06WorldTerm(w), vu.List(stepTerms))
		cross := c06CrossRefs(w)
		human := map[string]any{"kind": kind, "world": w, "steps": steps}
		out.Case(term, human, len(cross) > 0 && anyGrant, term)
		out.Tally("kind", kind)
		out.Tally("steps", strconv.Itoa(len(ops)))
		out.Tally("cross_refs", strconv.Itoa(min(len(cross), 6)))
		for _, x := range cross {
			out.Tally("referrer->target", x.FromKind+"->"+x.ToKind)
		}
	}
	up := func(g c06Grant) c06Op { return c06Op{Upsert: &g} }
	del := func(g c06Grant) c06Op {
		return c06Op{Delete: &types.NamespacedName{Namespace: g.Ns, Name: g.Name}}
	}

	// the world of the systematic part: one referrer of the given kind in ns-a, its target in ns-b
	sysWorld := func(ref int, otherObjects bool) (c06World, c06XRef) {
		w := c06World{GwNs: "ns-a", Listeners: []c06Listener{{Name: "http", Proto: 0}, {Name: "tls", Proto: 2}}}
		w.Svcs = []c06Svc{{"ns-b", "svc1", []int32{80}}, {"ns-a", "svc1", []int32{80}}}
		w.Secrets = []c06Secret{{"ns-b", "sec1", 0}, {"ns-a", "sec1", 0}}
		if otherObjects {
			w.Svcs = append(w.Svcs, c06Svc{"ns-b", "svc2", []int32{80}}, c06Svc{"ns-c", "svc1", []int32{80}})
			w.Secrets = append(w.Secrets, c06Secret{"ns-b", "sec2", 0}, c06Secret{"ns-c", "sec1", 0})
		}
		var x c06XRef
		if ref == 0 {
			w.Listeners = append(w.Listeners, c06Listener{Name: "https", Proto: 1,
				Certs: []c06CertRef{{Kind: c06P("Secret"), Name: "sec1", Ns: c06P("ns-b")}}})
			x = c06XRef{"Gateway", "ns-a", "Secret", "ns-b", "sec1"}
		} else {
			w.Routes = []c06Route{{Kind: ref - 1, Ns: "ns-a", Name: "r0",
				Rules: [][]c06BackendRef{{{Name: "svc1", Ns: c06P("ns-b"), Port: c06P(int32(80))}}}}}
			x = c06XRef{c06RouteKinds[ref-1], "ns-a", "Service", "ns-b", "svc1"}
		}
		return w, x
	}

	// 1. systematic: referrer kind x near-miss mask x {named, unnamed}, each as a history
	//    near-miss grant -> exact grant (same key: an update) -> revoked -> near miss again under another key
	masks := []int{0}
	for i := 0; i < 7; i++ {
		masks = append(masks, 1<<i)
	}
	if out.Thorough() {
		masks = nil
		for m := 0; m <= c06MAll; m++ {
			masks = append(masks, m)
		}
	}
	for ref := 0; ref < 4; ref++ {
		for _, mask := range masks {
			for _, named := range []bool{true, false} {
				if !named && mask&c06MToName != 0 && mask != c06MToName {
					continue // to.name near miss implies a name
				}
				r := rng.Fork()
				w, x := sysWorld(ref, mask%2 == 1 || r.Bool())
				miss := c06GrantFor(r, x, mask, named, "g")
				exact := c06GrantFor(r, x, 0, named, "g")
				miss2 := miss
				miss2.Name = "g2"
				ops := []c06Op{up(miss), up(exact), del(exact), up(miss2)}
				if miss.Ns != exact.Ns {
					// different keys: both live side by side until deleted
					ops = []c06Op{up(miss), up(exact), del(exact), del(miss), up(miss2)}
				}
				emit("systematic:"+c06MaskLabel(mask), w, ops)
			}
		}
		// the two halves of a grant in two grants; and both orders of creation
		r := rng.Fork()
		w, x := sysWorld(ref, true)
		sp := c06SplitGrants(r, x)
		emit("systematic:split", w, []c06Op{up(sp[0]), up(sp[1]), del(sp[0])})
		emit("systematic:split", w, []c06Op{up(sp[1]), up(sp[0]), del(sp[1])})
	}

	// 2. generated worlds (mostly valid) with targeted and noise grants, histories of 1..6 operations
	n := out.Count(700, 12000)
	for i := 0; i < n; i++ {
		r := rng.Fork()
		size := (i * 8) / n
		hostile := i%3 == 2
		w := c06GenWorld(r, size, hostile)
		cross := c06CrossRefs(w)
		var ops []c06Op
		var live []c06Grant
		nops := 1 + r.Intn(2+size/2)
		for k := 0; k < nops; k++ {
			switch c := r.Intn(10); {
			case c < 2 && len(live) > 0: // revoke
				j := r.Intn(len(live))
				ops = append(ops, del(live[j]))
				live = append(live[:j:j], live[j+1:]...)
			case c < 7 && len(cross) > 0: // grant for one of the world's cross-namespace references, maybe a near miss
				x := cross[r.Intn(len(cross))]
				mask := 0
				if r.Chance(1, 2) {
					mask = 1 << r.Intn(7)
					if r.Chance(1, 5) {
						mask |= 1 << r.Intn(7)
					}
				}
				name := "g" + strconv.Itoa(r.Intn(3)) // small name pool: upserts replace earlier grants
				g := c06GrantFor(r, x, mask, r.Bool(), name)
				if r.Chance(1, 4) { // more than one from/to entry in the same grant
					extra := c06NoiseGrant(r, name)
					g.From = append(g.From, extra.From...)
					g.To = append(g.To, extra.To...)
					r.Shuffle(len(g.From), func(a, b int) { g.From[a], g.From[b] = g.From[b], g.From[a] })
					r.Shuffle(len(g.To), func(a, b int) { g.To[a], g.To[b] = g.To[b], g.To[a] })
				}
				ops = append(ops, up(g))
				live = append(live, g)
			case c < 8 && len(cross) > 0:
				x := cross[r.Intn(len(cross))]
				for _, g := range c06SplitGrants(r, x) {
					ops = append(ops, up(g))
					live = append(live, g)
				}
			default:
				g := c06NoiseGrant(r, "n"+strconv.Itoa(r.Intn(3)))
				ops = append(ops, up(g))
				live = append(live, g)
			}
		}
		if hostile && r.Chance(1, 6) && len(live) > 0 { // delete of a key that does not exist, then of all
			ops = append(ops, c06Op{Delete: &types.NamespacedName{Namespace: "ns-c", Name: "nosuch"}})
			for _, g := range live {
				ops = append(ops, del(g))
			}
		}
		kind := "generated"
		if hostile {
			kind = "generated-hostile"
		}
		emit(kind, w, ops)
	}
	out.Extra("namespace_deref_sites", c06DerefSites())
	out.Close("C06.Check", "")
}

// c06DerefSites lists, for the evidence file, every place of the package (non-test sources of the working tree) that
// reads an optional .Namespace of a reference or consults the resolver: the inventory of cross-namespace
// dereferences the model's call sites were written from (backend_refs.go, tlsroute.go, gateway_listener.go,
// route_common.go; the parentRef namespace in route_common.go is governed by allowedRoutes, not by ReferenceGrants).
func c06DerefSites() []string {
	var sites []string
	entries, err := os.ReadDir(".")
	if err != nil {
		return []string{"unreadable: " + err.Error()}
	}
	for _, e := range entries {
		n := e.Name()
		if !strings.HasSuffix(n, ".go") || strings.HasSuffix(n, "_test.go") {
			continue
		}
		data, err := os.ReadFile(n)
		if err != nil {
			continue
		}
		for i, line := range strings.Split(string(data), "\n") {
			if strings.Contains(line, ".Namespace != nil") || strings.Contains(line, "refAllowed(") ||
				strings.Contains(line, "refAllowedFrom(") {
				if strings.HasPrefix(strings.TrimSpace(line), "//") || strings.HasPrefix(strings.TrimSpace(line), "func ") {
					continue
				}
				sites = append(sites, fmt.Sprintf("%s:%d: %s", n, i+1, strings.TrimSpace(line)))
			}
		}
	}
	return sites
}
