//go:build verif

package static

import (
	"bytes"
	"fmt"
	"go/ast"
	"go/parser"
	"go/printer"
	"go/token"
	"strings"
	"sync"

	"k8s.io/apimachinery/pkg/types"
	k8spredicate "sigs.k8s.io/controller-runtime/pkg/predicate"

	"github.com/nginx/nginx-gateway-fabric/internal/framework/controller/predicate"
	"github.com/nginx/nginx-gateway-fabric/internal/framework/gatewayclass"
)

// The event filters of the watches, read from the SOURCE of registerControllers (manager.go) on every run: for every
// entry of the controller table the watched kind and the expression given to controller.WithK8sPredicate. The
// expression is rebuilt from the real predicate types by a small interpreter; an expression it does not understand
// stops the harness (the check then reports that the harness failed: nothing is silently mirrored).

type vwEntry struct {
	kind string
	name string
	pred ast.Expr // nil: no predicate option
}

var (
	vwOnce  sync.Once
	vwTable []vwEntry
)

func vwExprString(fset *token.FileSet, e ast.Expr) string {
	var b bytes.Buffer
	_ = printer.Fprint(&b, fset, e)
	return strings.Join(strings.Fields(b.String()), " ")
}

func vwLoad() []vwEntry {
	vwOnce.Do(func() {
		fset := token.NewFileSet()
		f, err := parser.ParseFile(fset, "manager.go", nil, 0)
		if err != nil {
			panic(err)
		}
		var fn *ast.FuncDecl
		for _, d := range f.Decls {
			if fd, ok := d.(*ast.FuncDecl); ok && fd.Name.Name == "registerControllers" {
				fn = fd
			}
		}
		if fn == nil {
			panic("registerControllers not found in manager.go")
		}
		ast.Inspect(fn, func(n ast.Node) bool {
			cl, ok := n.(*ast.CompositeLit)
			if !ok {
				return true
			}
			var e vwEntry
			has := false
			for _, el := range cl.Elts {
				kv, ok := el.(*ast.KeyValueExpr)
				if !ok {
					continue
				}
				key, _ := kv.Key.(*ast.Ident)
				if key == nil {
					continue
				}
				switch key.Name {
				case "objectType":
					has = true
					s := vwExprString(fset, kv.Value)
					s = strings.TrimPrefix(s, "&")
					s = strings.TrimSuffix(s, "{}")
					if i := strings.LastIndex(s, "."); i >= 0 {
						s = s[i+1:]
					}
					if s == "crdWithGVK" {
						s = "CustomResourceDefinition"
					}
					e.kind = s
				case "name":
					e.name = strings.Trim(vwExprString(fset, kv.Value), "\"")
				case "options":
					ast.Inspect(kv.Value, func(m ast.Node) bool {
						if c, ok := m.(*ast.CallExpr); ok {
							if s, ok := c.Fun.(*ast.SelectorExpr); ok && s.Sel.Name == "WithK8sPredicate" && len(c.Args) == 1 {
								if e.pred != nil {
									panic("two predicates for one controller: " + e.kind)
								}
								e.pred = c.Args[0]
							}
						}
						return true
					})
				}
			}
			if has {
				vwTable = append(vwTable, e)
				return false
			}
			return true
		})
		if len(vwTable) < 10 {
			panic(fmt.Sprintf("only %d controller entries found in registerControllers", len(vwTable)))
		}
	})
	return vwTable
}

// vwBuild interprets a predicate expression with the real types.
func vwBuild(e ast.Expr) k8spredicate.Predicate {
	switch x := e.(type) {
	case *ast.CallExpr:
		sel, ok := x.Fun.(*ast.SelectorExpr)
		if !ok {
			break
		}
		var args []k8spredicate.Predicate
		for _, a := range x.Args {
			args = append(args, vwBuild(a))
		}
		switch sel.Sel.Name {
		case "And":
			return k8spredicate.And(args...)
		case "Or":
			return k8spredicate.Or(args...)
		case "Not":
			if len(args) == 1 {
				return k8spredicate.Not(args[0])
			}
		}
	case *ast.CompositeLit:
		sel, ok := x.Type.(*ast.SelectorExpr)
		if !ok {
			break
		}
		pkg, _ := sel.X.(*ast.Ident)
		if pkg == nil {
			break
		}
		fields := map[string]string{}
		for _, el := range x.Elts {
			kv, ok := el.(*ast.KeyValueExpr)
			if !ok {
				panic("positional fields in a predicate literal")
			}
			fields[kv.Key.(*ast.Ident).Name] = vwExprString(token.NewFileSet(), kv.Value)
		}
		name := pkg.Name + "." + sel.Sel.Name
		switch name {
		case "k8spredicate.GenerationChangedPredicate":
			if len(fields) == 0 {
				return k8spredicate.GenerationChangedPredicate{}
			}
		case "k8spredicate.ResourceVersionChangedPredicate":
			if len(fields) == 0 {
				return k8spredicate.ResourceVersionChangedPredicate{}
			}
		case "k8spredicate.LabelChangedPredicate":
			if len(fields) == 0 {
				return k8spredicate.LabelChangedPredicate{}
			}
		case "k8spredicate.AnnotationChangedPredicate":
			if len(fields) == 0 {
				return k8spredicate.AnnotationChangedPredicate{}
			}
		case "predicate.ServicePortsChangedPredicate":
			if len(fields) == 0 {
				return predicate.ServicePortsChangedPredicate{}
			}
		case "predicate.GatewayClassPredicate":
			if len(fields) == 1 && fields["ControllerName"] == "cfg.GatewayCtlrName" {
				return predicate.GatewayClassPredicate{ControllerName: vpCtlrName}
			}
		case "predicate.AnnotationPredicate":
			if len(fields) == 1 && fields["Annotation"] == "gatewayclass.BundleVersionAnnotation" {
				return predicate.AnnotationPredicate{Annotation: gatewayclass.BundleVersionAnnotation}
			}
		case "predicate.GatewayServicePredicate":
			if len(fields) == 1 && fields["NSName"] == "svcNSName" {
				return predicate.GatewayServicePredicate{NSName: types.NamespacedName{Namespace: vpPodNS, Name: "nginx-gateway"}}
			}
		}
	}
	panic("watch predicate expression outside what the harness understands: " + vwExprString(token.NewFileSet(), e))
}

// vwFilter: may a create / update / delete of this kind reach the event handler? An event reaches it when the
// predicate of at least one controller registered for the kind lets it through (a kind may have several controllers;
// a controller without a predicate lets everything through).
func vwFilter(kind string) k8spredicate.Predicate {
	var ps []k8spredicate.Predicate
	for _, e := range vwLoad() {
		if e.kind != kind {
			continue
		}
		if e.pred == nil {
			return k8spredicate.Funcs{}
		}
		ps = append(ps, vwBuild(e.pred))
	}
	switch len(ps) {
	case 0:
		panic("kind " + kind + " is not watched according to registerControllers")
	case 1:
		return ps[0]
	}
	return k8spredicate.Or(ps...)
}
