(* C11 — correspondence checker and property oracle, evaluated on what the Go harness observed: the
   real ManagerImpl.ReplaceFiles / ClearFolders over a real temporary directory tree, through a
   path-translating, fault-injecting OSFileManager.

   A case = the world (ConfigFolders read from generator.go, ignoreFilePaths of the package, the mode
   os.Create gives), the tree before the process starts, and for every event of the history the
   returned error status and the whole tree read back afterwards.
   [model_ok]: the repaired model produces the same status and the same tree after every event.
   [oracle]:   the property itself on the observed trees, without the model. *)
From Coq Require Import List String NArith Bool.
From NGF Require Export lib.CaseLib C11.Model.
Import ListNotations.
Local Open Scope list_scope.

Definition obs := (bool * disk)%type.
Definition case := (world * disk * list (event * obs))%type.

Definition fdata_eqb (a b : fdata) : bool := String.eqb (bytes a) (bytes b) && N.eqb (mode a) (mode b).

Definition ofdata_eqb (a b : option fdata) : bool :=
  match a, b with
  | Some x, Some y => fdata_eqb x y
  | None, None => true
  | _, _ => false
  end.

(* equal as maps *)
Definition disk_eqb (a b : disk) : bool :=
  forallb (fun e => ofdata_eqb (dget a (fst e)) (dget b (fst e))) (a ++ b).

Fixpoint trace_eqb (m o : list obs) : bool :=
  match m, o with
  | [], [] => true
  | (ok1, d1) :: m', (ok2, d2) :: o' =>
      if Bool.eqb ok1 ok2 && disk_eqb d1 d2 then trace_eqb m' o' else false
  | _, _ => false
  end.

Definition model_ok (c : case) : bool :=
  let '(w, d0, steps) := c in
  trace_eqb (trace true w (boot d0) (map fst steps)) (map snd steps).

(* ---------------------------------------------------------------- the property on the observed trees *)

Local Open Scope string_scope.

(* the folders nginx.conf includes by glob, plus the secrets folder (generator.go:26-65) *)
Definition spec_folders : list string :=
  ["/etc/nginx/conf.d"; "/etc/nginx/secrets"; "/etc/nginx/includes"; "/etc/nginx/main-includes";
   "/etc/nginx/stream-conf.d"].

(* what NGINX needs to start before the first configuration is written (folders.go:23-29) *)
Definition spec_bootstrap : list path :=
  [("/etc/nginx/main-includes", "main.conf"); ("/etc/nginx/main-includes", "mgmt.conf");
   ("/etc/nginx/main-includes", "deployment_ctx.json")].

Local Close Scope string_scope.

Definition o_managed (p : path) : bool := existsb (String.eqb (fst p)) spec_folders.
Definition o_boot (p : path) : bool := mem p spec_bootstrap.

(* the file a generated set prescribes for a path: the last one with that path *)
Definition want_file (fs : list file) (p : path) : option file :=
  find (fun f => path_eqb (f_path f) p) (rev fs).

(* exact bytes; a secret file has no permission bit for "others" *)
Definition meets (wf : option file) (got : option fdata) : bool :=
  match wf, got with
  | None, None => true
  | Some f, Some x =>
      String.eqb (bytes x) (f_bytes f) && (if f_secret f then N.eqb (N.land (mode x) 7%N) 0%N else true)
  | _, _ => false
  end.

(* after a successful ReplaceFiles(fs): every managed path holds what fs prescribes, nothing else is
   there; a bootstrap file that fs does not mention may still be the one present before the call *)
Definition replace_holds (prev snap : disk) (fs : list file) : bool :=
  forallb (fun p =>
             if o_managed p then
               if meets (want_file fs p) (dget snap p) then true
               else if o_boot p then
                      match want_file fs p with
                      | None => ofdata_eqb (dget snap p) (dget prev p)
                      | Some _ => false
                      end
                    else false
             else true)
          (map fst snap ++ map f_path fs).

(* after a successful start-up cleanup: nothing but bootstrap files in the managed folders, and the
   bootstrap files are untouched *)
Definition restart_holds (prev snap : disk) : bool :=
  forallb (fun p => if o_managed p then o_boot p else true) (map fst snap) &&
  forallb (fun p => ofdata_eqb (dget snap p) (dget prev p)) spec_bootstrap.

(* [up]: a start-up cleanup succeeded and no later one failed, i.e. a file manager exists *)
Fixpoint oracle_steps (up : bool) (prev : disk) (steps : list (event * obs)) : bool :=
  match steps with
  | [] => true
  | (Restart _, (ok, snap)) :: rest =>
      if (if ok then restart_holds prev snap else true) then oracle_steps ok snap rest else false
  | (Replace fs _, (ok, snap)) :: rest =>
      if (if ok && up then replace_holds prev snap fs else true) then oracle_steps up snap rest else false
  end.

Definition oracle (c : case) : bool :=
  let '(_, d0, steps) := c in oracle_steps false d0 steps.

(* ---------------------------------------------------------------- finding D17 (fixed by fixes/D17.patch)

   Input class of D17: the histories on which the code as found (a path is remembered only after its
   WriteFile succeeded) breaks the property while the repaired code keeps it.  Decided by running both
   variants of the model on the input. *)
Definition with_model (fixed : bool) (c : case) : case :=
  let '(w, d0, steps) := c in
  (w, d0, combine (map fst steps) (trace fixed w (boot d0) (map fst steps))).

Definition class_D17 (c : case) : bool :=
  negb (oracle (with_model false c)) && oracle (with_model true c).

Definition code_D17 := code_known 17.

Definition check_case (c : case) : list nat :=
  if oracle c then when (negb (model_ok c)) code_mismatch
  else if class_D17 c then [code_D17] else [code_violation].
