(* C15 — how NGINX reads a split_clients block (environment model, written from
   src/http/modules/ngx_http_split_clients_module.c and ngx_atofp of src/core/ngx_string.c; there
   is no NGINX binary in the sandbox, so this file is trusted, not verified).

   ngx_http_split_clients: a part is "*" or "<number>%"; <number> is read by ngx_atofp(.., 2) and the
   part is rejected ("invalid percent value") when ngx_atofp fails or returns 0.  The block is
   rejected when the running total exceeds 10000 ("percent total is greater than 100%").  A request
   whose hash falls into part i gets that part's value; requests beyond the total get the empty
   string.  So the share of traffic of an active line is its percent, a commented-out line gets
   nothing.  (The 2^-32 granularity of the hash ranges is ignored.) *)
From Coq Require Import List ZArith String Ascii Bool Arith.
From NGF Require Import C15.Model.
Import ListNotations.
Local Open Scope Z_scope.

Definition digit_of (c : ascii) : option Z :=
  let n := Z.of_nat (nat_of_ascii c) in
  if (48 <=? n) && (n <=? 57) then Some (n - 48) else None.

(* the loop of ngx_atofp: [point] digits after the dot are still allowed, [dot] = a dot was seen *)
Fixpoint atofp_loop (s : string) (value : Z) (point : nat) (dot : bool) : option (Z * nat) :=
  match s with
  | EmptyString => Some (value, point)
  | String c t =>
      match point with
      | O => None                                   (* if (point == 0) return NGX_ERROR *)
      | S p' =>
          if Ascii.eqb c "."%char then (if dot then None else atofp_loop t value point true)
          else match digit_of c with
               | None => None
               | Some d => atofp_loop t (value * 10 + d) (if dot then p' else point) dot
               end
      end
  end.

Fixpoint scale10 (value : Z) (point : nat) : Z :=
  match point with O => value | S p => scale10 (value * 10) p end.

(* ngx_atofp(s, len, 2); None = NGX_ERROR (the overflow cut-off at 2^63 is not modelled) *)
Definition ngx_atofp2 (s : string) : option Z :=
  match s with
  | EmptyString => None
  | _ => match atofp_loop s 0 2%nat false with
         | None => None
         | Some (v, p) => Some (scale10 v p)
         end
  end.

(* the percent of an active line as NGINX accepts it: Some n with 0 < n *)
Definition ngx_percent (s : string) : option Z :=
  match ngx_atofp2 s with
  | Some n => if 0 <? n then Some n else None
  | None => None
  end.

(* traffic shares (hundredths of a percent) of the lines of a block; None = NGINX rejects the block *)
Fixpoint ngx_shares_from (total : Z) (ls : list line) : option (list Z) :=
  match ls with
  | [] => Some []
  | l :: t =>
      if l_active l then
        match ngx_percent (l_percent l) with
        | None => None
        | Some n =>
            if max_hundredths <? total + n then None
            else match ngx_shares_from (total + n) t with
                 | None => None
                 | Some r => Some (n :: r)
                 end
        end
      else match ngx_shares_from total t with
           | None => None
           | Some r => Some (0 :: r)
           end
  end.

Definition ngx_shares (ls : list line) : option (list Z) := ngx_shares_from 0 ls.
