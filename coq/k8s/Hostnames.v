(* Hostname intersection (k8s/Spec.v accepted_hostnames, the model of graph.findAcceptedHostnames that the routing
   specification uses and that the harness compares with the real function): the server names a Route gets on a listener
   serve EXACTLY the request hosts that both the listener's hostname and one of the Route's hostnames admit.

   A pattern is the empty string (anything), a wildcard "*.suffix" (any host that ends with ".suffix"), or an exact name. *)
From Coq Require Import List String Ascii Bool Arith Lia.
From NGF Require Import lib.Str lib.Order k8s.State k8s.Spec.
Import ListNotations.
Local Open Scope string_scope.
Local Open Scope list_scope.

Definition serves (p h : string) : bool :=
  if seqb p "" then true else if is_wild p then has_suffix (drop 1 p) h else seqb p h.

(* ---------------------------------------------------------------- suffixes of character lists *)

Definition suffixb (s t : list ascii) : bool := is_prefix_l (rev s) (rev t).

Lemma is_prefix_l_spec : forall p s, is_prefix_l p s = true <-> exists t, s = p ++ t.
Proof.
  induction p as [|a p IH]; intros s; cbn [is_prefix_l].
  - split; [intros _; exists s; reflexivity|reflexivity].
  - destruct s as [|b s]; [split; [discriminate|intros [t H]; discriminate]|].
    rewrite andb_true_iff, IH. split.
    + intros [Hab [t ->]]. apply Ascii.eqb_eq in Hab. subst. exists t. reflexivity.
    + intros [t H]. inversion H; subst. split; [apply Ascii.eqb_refl|exists t; reflexivity].
Qed.

Lemma suffixb_spec : forall s t, suffixb s t = true <-> exists p, t = p ++ s.
Proof.
  intros s t. unfold suffixb. rewrite is_prefix_l_spec. split.
  - intros [u H]. exists (rev u). apply (f_equal (@rev ascii)) in H. rewrite rev_involutive, rev_app_distr, rev_involutive in H. exact H.
  - intros [p ->]. exists (rev p). rewrite rev_app_distr. reflexivity.
Qed.

Lemma suffixb_refl : forall s, suffixb s s = true.
Proof. intros s. apply suffixb_spec. exists []. reflexivity. Qed.

Lemma suffixb_trans : forall a b c, suffixb a b = true -> suffixb b c = true -> suffixb a c = true.
Proof.
  intros a b c H1 H2. apply suffixb_spec in H1, H2. destruct H1 as [p ->], H2 as [q ->].
  apply suffixb_spec. exists (q ++ p). rewrite app_assoc. reflexivity.
Qed.

(* two suffixes of one string: one is a suffix of the other *)
Lemma app_eq_app_suffix : forall (p1 s1 p2 s2 : list ascii), p1 ++ s1 = p2 ++ s2 ->
  (exists q, s1 = q ++ s2) \/ (exists q, s2 = q ++ s1).
Proof.
  induction p1 as [|a p1 IH]; intros s1 p2 s2 H; cbn [app] in H.
  - left. exists p2. exact H.
  - destruct p2 as [|b p2]; cbn [app] in H.
    + right. exists (a :: p1). symmetry. exact H.
    + inversion H; subst. apply (IH _ _ _ H2).
Qed.

Lemma common_suffixes : forall s1 s2 h, suffixb s1 h = true -> suffixb s2 h = true ->
  suffixb s1 s2 = true \/ suffixb s2 s1 = true.
Proof.
  intros s1 s2 h H1 H2. apply suffixb_spec in H1, H2. destruct H1 as [p1 E1], H2 as [p2 E2]. subst h.
  destruct (app_eq_app_suffix _ _ _ _ E2) as [[q ->]|[q ->]].
  - right. apply suffixb_spec. exists q. reflexivity.
  - left. apply suffixb_spec. exists q. reflexivity.
Qed.

(* a suffix of c :: t that is not the whole is a suffix of t *)
Lemma suffixb_cons : forall s c t, suffixb s (c :: t) = true -> s <> c :: t -> suffixb s t = true.
Proof.
  intros s c t H Hne. apply suffixb_spec in H. destruct H as [p H]. destruct p as [|a p]; cbn [app] in H.
  - exfalso. apply Hne. symmetry. exact H.
  - inversion H; subst. apply suffixb_spec. exists p. reflexivity.
Qed.

(* ---------------------------------------------------------------- labels *)

Definition dot : ascii := "."%char.
Fixpoint dots (l : list ascii) : nat :=
  match l with [] => 0 | c :: l' => (if Ascii.eqb c dot then 1 else 0) + dots l' end.

Lemma dots_app : forall a b, dots (a ++ b) = dots a + dots b.
Proof. induction a as [|c a IH]; intros b; cbn [dots app]; [reflexivity|]. rewrite IH. lia. Qed.

Lemma split_on_l_length : forall s cur, List.length (split_on_l dot cur s) = S (dots s).
Proof.
  induction s as [|c s IH]; intros cur; cbn [split_on_l dots]; [reflexivity|].
  destruct (Ascii.eqb c dot); cbn [List.length]; rewrite IH; lia.
Qed.

Lemma label_count_dots : forall h, label_count h = S (dots (chars_of h)).
Proof. intros h. unfold label_count, split_on. rewrite map_length. apply split_on_l_length. Qed.

(* ---------------------------------------------------------------- strings <-> character lists *)

Lemma chars_of_string_of : forall l, chars_of (string_of l) = l.
Proof. induction l as [|c l IH]; cbn; [reflexivity|]. rewrite IH. reflexivity. Qed.

Lemma has_suffix_chars : forall s t, has_suffix s t = suffixb (chars_of s) (chars_of t).
Proof. reflexivity. Qed.

Lemma drop1_chars : forall h, chars_of (drop 1 h) = tl (chars_of h).
Proof. intros h. unfold drop. rewrite chars_of_string_of. destruct (chars_of h); reflexivity. Qed.

Lemma is_wild_chars : forall h, is_wild h = true -> exists t, chars_of h = "*"%char :: dot :: t.
Proof.
  intros h H. unfold is_wild, has_prefix in H. apply is_prefix_l_spec in H. destruct H as [t H]. exists t. exact H.
Qed.

Lemma seqb_chars : forall a b, seqb a b = true <-> chars_of a = chars_of b.
Proof. intros a b. rewrite seqb_eq. split; [intros ->; reflexivity|apply chars_of_inj]. Qed.

(* wildcard a whose tail is a suffix of wildcard b: a has at most as many labels, and as many only if a = b *)
Lemma wild_suffix_labels : forall a b, is_wild a = true -> is_wild b = true -> has_suffix (drop 1 a) b = true ->
  label_count a <= label_count b /\ (label_count a = label_count b -> a = b).
Proof.
  intros a b Wa Wb H. destruct (is_wild_chars a Wa) as [ta Ea]. destruct (is_wild_chars b Wb) as [tb Eb].
  rewrite has_suffix_chars, drop1_chars, Ea, Eb in H. cbn [tl] in H.
  assert (Hs : suffixb (dot :: ta) (dot :: tb) = true).
  { apply suffixb_cons in H; [exact H|]. intros E. inversion E. }
  apply suffixb_spec in Hs. destruct Hs as [p Hp].
  rewrite !label_count_dots, Ea, Eb.
  change (dots ("*"%char :: dot :: ta)) with (dots (dot :: ta)). change (dots ("*"%char :: dot :: tb)) with (dots (dot :: tb)).
  rewrite Hp, dots_app.
  split; [lia|]. intros Hl.
  assert (p = []) as ->.
  { destruct p as [|c p]; [reflexivity|]. exfalso. cbn [app] in Hp. inversion Hp; subst c.
    change (dots (dot :: p)) with (1 + dots p) in Hl. lia. }
  cbn [app] in Hp. apply chars_of_inj. rewrite Ea, Eb. inversion Hp; subst. reflexivity.
Qed.

(* ---------------------------------------------------------------- one listener hostname against one route hostname *)

Lemma serves_wild : forall p h, is_wild p = true -> serves p h = has_suffix (drop 1 p) h.
Proof.
  intros p h W. unfold serves. rewrite W. destruct (seqb p "") eqn:E; [|reflexivity].
  apply seqb_eq in E. subst. discriminate.
Qed.

Lemma serves_exact : forall p h, p <> "" -> is_wild p = false -> serves p h = seqb p h.
Proof.
  intros p h Hne W. unfold serves. rewrite W. destruct (seqb p "") eqn:E; [|reflexivity].
  apply seqb_eq in E. contradiction.
Qed.

(* the tail of a wildcard is a suffix of another wildcard only through that wildcard's own tail *)
Lemma wild_tail_suffix : forall a b, is_wild a = true -> is_wild b = true -> has_suffix (drop 1 a) b = true ->
  has_suffix (drop 1 a) (drop 1 b) = true.
Proof.
  intros a b Wa Wb H. destruct (is_wild_chars a Wa) as [ta Ea]. destruct (is_wild_chars b Wb) as [tb Eb].
  rewrite has_suffix_chars, !drop1_chars, Ea, Eb in *. cbn [tl] in *.
  apply suffixb_cons in H; [exact H|]. intros E. inversion E.
Qed.

(* soundness: what the more specific of two matching hostnames serves, both serve *)
Lemma more_specific_sound : forall lh rh h, rh <> "" -> hosts_match lh rh = true ->
  serves (more_specific lh rh) h = true -> serves lh h = true /\ serves rh h = true.
Proof.
  intros lh rh h Hr Hm Hs. unfold hosts_match in Hm. unfold more_specific in Hs.
  destruct (seqb lh rh) eqn:Elr.
  { apply seqb_eq in Elr. subst rh. destruct (seqb lh ""); auto. }
  destruct (seqb lh "") eqn:El.
  { apply seqb_eq in El. subst lh. split; [reflexivity|exact Hs]. }
  assert (Hl : lh <> "") by (apply seqb_neq; exact El).
  assert (Er : seqb rh "" = false) by (apply seqb_neq; exact Hr).
  rewrite Er in Hs.
  destruct (is_wild lh) eqn:Wl.
  - destruct (is_wild rh) eqn:Wr.
    + (* both wildcards *)
      cbn [andb] in Hm.
      destruct (has_suffix (drop 1 lh) rh) eqn:S1.
      * (* the listener's tail is a suffix of the route's name: the route is at least as specific *)
        destruct (wild_suffix_labels lh rh Wl Wr S1) as [Hle Heq].
        destruct (Nat.ltb (label_count rh) (label_count lh)) eqn:Hlt; [apply Nat.ltb_lt in Hlt; lia|].
        split; [|exact Hs]. rewrite serves_wild in * by assumption.
        rewrite has_suffix_chars in *. eapply suffixb_trans; [|exact Hs].
        rewrite <- has_suffix_chars. apply wild_tail_suffix; assumption.
      * (* the route's tail is a suffix of the listener's name *)
        destruct (wild_suffix_labels rh lh Wr Wl Hm) as [Hle Heq].
        destruct (Nat.ltb (label_count rh) (label_count lh)) eqn:Hlt.
        -- split; [exact Hs|]. rewrite serves_wild in * by assumption.
           rewrite has_suffix_chars in *. eapply suffixb_trans; [|exact Hs].
           rewrite <- has_suffix_chars. apply wild_tail_suffix; assumption.
        -- apply Nat.ltb_ge in Hlt. assert (rh = lh) by (apply Heq; lia). subst. rewrite seqb_refl in Elr. discriminate.
    + (* wildcard listener, exact route name *)
      cbn [andb] in Hm. destruct (has_suffix (drop 1 lh) rh) eqn:S1; [|discriminate].
      rewrite serves_exact in Hs by assumption. apply seqb_eq in Hs. subst h.
      split; [rewrite serves_wild by assumption; exact S1|rewrite serves_exact by assumption; apply seqb_refl].
  - cbn [andb] in Hm. destruct (is_wild rh) eqn:Wr; [|discriminate]. cbn [andb] in Hm.
    (* exact listener name, wildcard route *)
    rewrite serves_exact in Hs by assumption. apply seqb_eq in Hs. subst h.
    split; [rewrite serves_exact by assumption; apply seqb_refl|rewrite serves_wild by assumption; exact Hm].
Qed.

(* completeness: hostnames that serve a common host match, and the more specific one serves it *)
Lemma more_specific_complete : forall lh rh h, rh <> "" -> serves lh h = true -> serves rh h = true ->
  hosts_match lh rh = true /\ serves (more_specific lh rh) h = true.
Proof.
  intros lh rh h Hr Sl Sr. unfold hosts_match, more_specific.
  destruct (seqb lh "") eqn:El.
  { apply seqb_eq in El. subst lh. split; [reflexivity|].
    destruct (seqb "" rh) eqn:E; [apply seqb_eq in E; subst; contradiction|exact Sr]. }
  assert (Hl : lh <> "") by (apply seqb_neq; exact El).
  assert (Er : seqb rh "" = false) by (apply seqb_neq; exact Hr).
  destruct (seqb lh rh) eqn:Elr; [split; [reflexivity|exact Sl]|]. rewrite Er.
  destruct (is_wild lh) eqn:Wl; destruct (is_wild rh) eqn:Wr; cbn [andb].
  - rewrite serves_wild in Sl, Sr by assumption. rewrite has_suffix_chars in Sl, Sr.
    destruct (common_suffixes _ _ _ Sl Sr) as [H|H].
    + (* the listener's tail is a suffix of the route's tail, hence of the route's name *)
      assert (S1 : has_suffix (drop 1 lh) rh = true).
      { rewrite has_suffix_chars. eapply suffixb_trans; [exact H|]. rewrite drop1_chars. apply suffixb_spec.
        destruct (chars_of rh) as [|c t]; [exists []; reflexivity|exists [c]; reflexivity]. }
      rewrite S1. split; [reflexivity|].
      destruct (wild_suffix_labels lh rh Wl Wr S1) as [Hle _].
      destruct (Nat.ltb (label_count rh) (label_count lh)) eqn:Hlt; [apply Nat.ltb_lt in Hlt; lia|].
      rewrite serves_wild by assumption. rewrite has_suffix_chars. exact Sr.
    + assert (S2 : has_suffix (drop 1 rh) lh = true).
      { rewrite has_suffix_chars. eapply suffixb_trans; [exact H|]. rewrite drop1_chars. apply suffixb_spec.
        destruct (chars_of lh) as [|c t]; [exists []; reflexivity|exists [c]; reflexivity]. }
      rewrite S2. split; [destruct (has_suffix (drop 1 lh) rh); reflexivity|].
      destruct (wild_suffix_labels rh lh Wr Wl S2) as [Hle Heq].
      destruct (Nat.ltb (label_count rh) (label_count lh)) eqn:Hlt.
      * rewrite serves_wild by assumption. rewrite has_suffix_chars. exact Sl.
      * rewrite serves_wild by assumption. rewrite has_suffix_chars. exact Sr.
  - rewrite serves_wild in Sl by assumption. rewrite serves_exact in Sr by assumption. apply seqb_eq in Sr. subst h.
    rewrite Sl. split; [reflexivity|]. rewrite serves_exact by assumption. apply seqb_refl.
  - rewrite serves_exact in Sl by assumption. rewrite serves_wild in Sr by assumption. apply seqb_eq in Sl. subst h.
    rewrite Sr. split; [reflexivity|]. rewrite serves_exact by assumption. apply seqb_refl.
  - rewrite serves_exact in Sl, Sr by assumption. apply seqb_eq in Sl, Sr. subst. rewrite seqb_refl in Elr. discriminate.
Qed.

(* ---------------------------------------------------------------- the theorem *)

Theorem accepted_hostnames_exact : forall lh rhs h,
  rhs <> [] -> (forall r, In r rhs -> r <> "") ->
  (existsb (fun x => serves x h) (accepted_hostnames lh rhs) = true <->
   serves lh h = true /\ existsb (fun r => serves r h) rhs = true).
Proof.
  intros lh rhs h Hne Hr. unfold accepted_hostnames. destruct rhs as [|r0 rhs0] eqn:E; [contradiction|]. rewrite <- E in *.
  rewrite !existsb_exists. split.
  - intros [x [Hin Hs]]. apply in_map_iff in Hin. destruct Hin as [r [<- Hf]]. apply filter_In in Hf. destruct Hf as [Hrin Hm].
    destruct (more_specific_sound lh r h (Hr r Hrin) Hm Hs) as [Sl Sr]. split; [exact Sl|]. exists r. auto.
  - intros [Sl [r [Hrin Sr]]]. destruct (more_specific_complete lh r h (Hr r Hrin) Sl Sr) as [Hm Hs].
    exists (more_specific lh r). split; [|exact Hs]. apply in_map_iff. exists r. split; [reflexivity|].
    apply filter_In. auto.
Qed.

(* a Route without hostnames takes the listener's hostname *)
Theorem accepted_hostnames_no_route_hostnames : forall lh,
  accepted_hostnames lh [] = [if seqb lh "" then catch_all else lh].
Proof. reflexivity. Qed.
