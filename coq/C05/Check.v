(* C05 — oracle: the REAL handler is fed admissible objects of every watched kind (generated states plus a
   catalogue of rarely used optional fields) in random orders and batchings under recover() and a per-batch
   deadline. It must never panic or hang. The abstract cluster delivered so far decides whether an observed
   panic belongs to the class of a recorded finding. *)
From Coq Require Import List String ZArith Bool Arith.
From NGF Require Export lib.CaseLib lib.Str k8s.State k8s.Spec ngx.Lexer ngx.Eval C05.Model.
Import ListNotations.
Local Open Scope string_scope.
Local Open Scope list_scope.

Record case := Case {
  k_plus : bool;
  k_snapshots : list cluster;          (* abstract state delivered up to and including batch i *)
  k_flags : list (list string);        (* catalogue objects delivered up to and including batch i *)
  k_panic : option (nat * string);     (* batch index and message of the panic, if any *)
  k_hang : option nat                  (* batch that did not finish within the deadline *)
}.

Definition known_D2 := 2.
Definition known_D29 := 29.
Definition known_D30 := 30.
Definition known_D35 := 35.
Definition known_D41 := 41.

Definition has_sub (sub s : string) : bool := match Eval.find_sub sub s with Some _ => true | None => false end.

Definition classify (plus : bool) (cs : cluster) (flags : list string) (msg : string) : nat :=
  if has_sub "not found in map" msg && class_D2 cs then code_known known_D2
  else if has_sub "nginx plus token not set" msg && class_D35 plus cs then code_known known_D35
  else if has_sub "NGINX Plus Secret did not have expected field" msg && mem_str "usage-secret-without-key" flags then code_known known_D30
  else if has_sub "index out of range" msg && mem_str "btp-empty-ca-list" flags then code_known known_D29
  else if has_sub "index out of range" msg && mem_str "btp-ancestors-full" flags then code_known known_D41
  else code_violation.

Definition check_case (c : case) : list nat :=
  match k_hang c with
  | Some _ => [code_violation]
  | None =>
      match k_panic c with
      | None => []
      | Some (i, msg) =>
          [classify (k_plus c) (nth i (k_snapshots c) (Build_cluster [] [] [] [] [] [] [] [] [])) (nth i (k_flags c) []) msg]
      end
  end.
