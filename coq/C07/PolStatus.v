(* C07 — "every parentRef or policy ancestor that targets this controller's Gateways receives exactly one entry carrying
   the resource's current generation": the policy half. The statuses the REAL pipeline wrote on ClientSettingsPolicies,
   ObservabilityPolicies, UpstreamSettingsPolicies and BackendTLSPolicies of generated states are judged on their own:

     R1  no two entries of this controller name the same ancestor;
     R2  every entry of this controller has exactly one Accepted condition, and every condition carries the policy's
         current generation;
     R3  a target that exists and belongs to this controller (the winning Gateway; a Route of the policy's namespace
         that names one of this controller's Gateways as parent) has an entry - when the class is active, a Gateway wins
         and the policy's ancestor list is not full (16 entries: filled by other controllers, or by them and the entries of earlier
         targets);
     R4  at most 16 entries in all (CRD limit), and the entries of other controllers are still there;
     R5  every entry of this controller corresponds to a target: a Route entry to a Route target of that kind and
         name, a Gateway entry to a Gateway target of that name or - the ancestor of Service-targeted policies being the
         Gateway - to some Service target;
     R6  when a Route's status blames an invalid BackendTLSPolicy (not one whose ancestor list is full), some BackendTLSPolicy
         carries an entry of this controller that says it is not accepted. *)
From Coq Require Import List String ZArith Bool Arith.
From NGF Require Export lib.CaseLib lib.Str k8s.State k8s.Spec C07.Check.
Import ListNotations.
Local Open Scope string_scope.
Local Open Scope list_scope.

Record anc_entry := AEntry {
  ae_kind : string; ae_ns : option string; ae_name : string; ae_controller : string; ae_conds : list cond
}.

Record pol_status := PStatus {
  pl_kind : string; pl_ns : string; pl_name : string; pl_gen : Z;
  pl_targets : list (string * string);          (* kind, name (targets are local references) *)
  pl_foreign_before : nat;                      (* entries of other controllers the object carried before *)
  pl_entries : list anc_entry
}.

Record case := PCase {
  pk_cluster : cluster; pk_policies : list pol_status;
  pk_btp_blamed : bool   (* some Route's status says that the BackendTLSPolicy of one of its backends is invalid (for a reason
                            other than a full ancestor list) *)
}.

Definition ours (e : anc_entry) : bool := seqb (ae_controller e) our_controller.
Definition ens (p : pol_status) (e : anc_entry) : string := match ae_ns e with Some n => n | None => pl_ns p end.

Definition same_ancestor (p : pol_status) (a b : anc_entry) : bool :=
  seqb (ae_kind a) (ae_kind b) && seqb (ens p a) (ens p b) && seqb (ae_name a) (ae_name b).

Fixpoint no_dup_anc (p : pol_status) (l : list anc_entry) : bool :=
  match l with
  | [] => true
  | e :: l' => negb (existsb (same_ancestor p e) l') && no_dup_anc p l'
  end.

Definition r1 (p : pol_status) : bool := no_dup_anc p (filter ours (pl_entries p)).

Definition r2 (p : pol_status) : bool :=
  forallb (fun e => Nat.eqb (count_type (ae_conds e) "Accepted") 1 &&
                    forallb (fun c => Z.eqb (cd_gen c) (pl_gen p)) (ae_conds e)) (filter ours (pl_entries p)).

Definition has_entry (p : pol_status) (kind ns name : string) : bool :=
  existsb (fun e => ours e && seqb (ae_kind e) kind && seqb (ens p e) ns && seqb (ae_name e) name) (pl_entries p).

Definition route_is_ours (cs : cluster) (r : route) : bool :=
  existsb (fun g => existsb (fun pr => pref_targets g r pr) (rt_parents r)) (our_gateways cs).

Definition kind_of_route (r : route) : string := match rt_kind r with KGRPC => "GRPCRoute" | _ => "HTTPRoute" end.

Definition r3 (cs : cluster) (p : pol_status) : bool :=
  if negb (class_active cs) || Nat.leb 16 (pl_foreign_before p) || Nat.leb 16 (List.length (pl_entries p)) then true else
  match winning_gateway cs with
  | None => true
  | Some g =>
      forallb (fun t =>
        let '(k, n) := t in
        if seqb k "Gateway" then
          negb (seqb n (g_name g) && seqb (pl_ns p) (g_ns g)) || has_entry p "Gateway" (g_ns g) n
        else if seqb k "HTTPRoute" || seqb k "GRPCRoute" then
          negb (existsb (fun r => seqb (rt_ns r) (pl_ns p) && seqb (rt_name r) n && seqb (kind_of_route r) k && route_is_ours cs r) (c_routes cs))
          || has_entry p k (pl_ns p) n
        else true) (pl_targets p)
  end.

Definition r4 (p : pol_status) : bool :=
  Nat.leb (List.length (pl_entries p)) 16 &&
  Nat.leb (pl_foreign_before p) (List.length (filter (fun e => negb (ours e)) (pl_entries p))).

Definition r5 (p : pol_status) : bool :=
  forallb (fun e =>
    if seqb (ae_kind e) "Gateway" then
      existsb (fun t => (seqb (fst t) "Gateway" && seqb (snd t) (ae_name e)) || seqb (fst t) "Service") (pl_targets p)
    else existsb (fun t => seqb (fst t) (ae_kind e) && seqb (snd t) (ae_name e)) (pl_targets p) && seqb (ens p e) (pl_ns p))
    (filter ours (pl_entries p)).

(* R6: a Route is told that the BackendTLSPolicy of its backend is invalid only if such a policy is told so itself: some
   BackendTLSPolicy carries an entry of this controller that is not Accepted=True *)
Definition r6 (c : case) : bool :=
  negb (pk_btp_blamed c) ||
  existsb (fun p => seqb (pl_kind p) "BackendTLSPolicy" && Nat.leb 16 (pl_foreign_before p)) (pk_policies c) ||
     (* (a policy whose list other controllers filled cannot be told anything, whatever else is wrong with it) *)
  existsb (fun p => seqb (pl_kind p) "BackendTLSPolicy" &&
                    existsb (fun e => ours e && existsb (fun cd => seqb (cd_type cd) "Accepted" && negb (seqb (cd_status cd) "True")) (ae_conds e))
                            (pl_entries p)) (pk_policies c).

Definition complaints (c : case) : list (nat * string) :=
  (if r6 c then [] else [(code_violation, "a Route is told that the BackendTLSPolicy of its backend is invalid, no BackendTLSPolicy is")]) ++
  flat_map (fun p =>
    (if r1 p then [] else [(code_violation, "two entries for one ancestor: " ++ pl_kind p ++ "/" ++ pl_ns p ++ "/" ++ pl_name p)%string]) ++
    (if r2 p then [] else [(code_violation, "an entry without exactly one Accepted condition or with a stale generation: " ++ pl_kind p ++ "/" ++ pl_ns p ++ "/" ++ pl_name p)%string]) ++
    (if r3 (pk_cluster c) p then [] else [(code_violation, "a target of this controller has no entry: " ++ pl_kind p ++ "/" ++ pl_ns p ++ "/" ++ pl_name p)%string]) ++
    (if r4 p then [] else [(code_violation, "more than 16 entries, or entries of other controllers lost: " ++ pl_kind p ++ "/" ++ pl_ns p ++ "/" ++ pl_name p)%string]) ++
    (if r5 p then [] else [(code_violation, "an entry for something the policy does not target: " ++ pl_kind p ++ "/" ++ pl_ns p ++ "/" ++ pl_name p)%string]))
  (pk_policies c).

Definition check_case (c : case) : list nat := dedup_nat (map fst (complaints c)).
