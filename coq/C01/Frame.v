(* C01 — "an irrelevant change never alters them": the frame condition that the convergence theorems (C01/Proofs.v) take as
   a hypothesis, proved here for the specification (k8s/Spec.v, the reading of Gateway API that every routing oracle
   compares the generated configuration with) and the two relevance criteria the change processor applies to the
   most frequent events:

   - a Service (and its EndpointSlices) matters only if some backendRef names it: replacing the Service list by one that
     agrees on every (namespace, name) the backends of a rule name leaves the outcome of the rule unchanged;
   - a Secret matters only if a listener's certificateRef names it: replacing the Secret list by one that agrees on the
     Secret a listener names leaves the listener's validity unchanged.

   Stated for arbitrary replacement lists, so that creation, update and deletion are all instances. *)
From Coq Require Import List String ZArith Bool Arith.
From NGF Require Import lib.Str k8s.State k8s.Spec.
Import ListNotations.

Definition with_services (cs : cluster) (l : list service) : cluster :=
  {| c_classes := c_classes cs; c_gateways := c_gateways cs; c_routes := c_routes cs; c_services := l;
     c_secrets := c_secrets cs; c_grants := c_grants cs; c_namespaces := c_namespaces cs; c_btps := c_btps cs; c_cms := c_cms cs |}.

Definition with_secrets (cs : cluster) (l : list secret) : cluster :=
  {| c_classes := c_classes cs; c_gateways := c_gateways cs; c_routes := c_routes cs; c_services := c_services cs;
     c_secrets := l; c_grants := c_grants cs; c_namespaces := c_namespaces cs; c_btps := c_btps cs; c_cms := c_cms cs |}.

Definition backend_ns (r : route) (b : backend) : string := match b_ns b with Some n => n | None => rt_ns r end.

(* the two Service lists say the same about the Service (ns, name): whether it exists with a given port *)
Definition services_agree (l l' : list service) (ns name : string) : Prop :=
  forall port, existsb (fun s => seqb (s_ns s) ns && seqb (s_name s) name && existsb (Z.eqb port) (s_ports s)) l =
               existsb (fun s => seqb (s_ns s) ns && seqb (s_name s) name && existsb (Z.eqb port) (s_ports s)) l'.

(* the reference is in the Route's namespace or a ReferenceGrant permits it (otherwise the backend is not in effect whatever
   the Service looks like, and the change processor does not track the Service: C06) *)
Definition permitted (cs : cluster) (r : route) (b : backend) : bool :=
  seqb (backend_ns r b) (rt_ns r) ||
  ref_permitted cs (backend_ns r b) "Service" (b_name b) (match rt_kind r with KHTTP => "HTTPRoute" | KGRPC => "GRPCRoute" end) (rt_ns r).

Definition tracked_agree (cs : cluster) (l' : list service) (r : route) (b : backend) : Prop :=
  permitted cs r b = true -> services_agree (c_services cs) l' (backend_ns r b) (b_name b).

Lemma backend_valid_frame cs l' r b :
  tracked_agree cs l' r b ->
  backend_valid (with_services cs l') r b = backend_valid cs r b.
Proof.
  intros H. unfold backend_valid. fold (backend_ns r b).
  change (ref_permitted (with_services cs l') (backend_ns r b) "Service" (b_name b)
            (match rt_kind r with KHTTP => "HTTPRoute" | KGRPC => "GRPCRoute" end) (rt_ns r))
    with (ref_permitted cs (backend_ns r b) "Service" (b_name b)
            (match rt_kind r with KHTTP => "HTTPRoute" | KGRPC => "GRPCRoute" end) (rt_ns r)).
  fold (permitted cs r b).
  destruct (permitted cs r b) eqn:Hp; [|reflexivity].
  change (c_services (with_services cs l')) with l'.
  rewrite <- (H Hp (b_port b)). reflexivity.
Qed.

Lemma backend_tls_frame cs l' r b :
  tracked_agree cs l' r b ->
  backend_tls (with_services cs l') r b = backend_tls cs r b.
Proof. intros H. unfold backend_tls. rewrite (backend_valid_frame cs l' r b H). reflexivity. Qed.

Lemma forallb_ext_in {A} (f g : A -> bool) l : (forall x, In x l -> f x = g x) -> forallb f l = forallb g l.
Proof.
  induction l as [|x l IH]; intros H; simpl; [reflexivity|].
  rewrite (H x (or_introl eq_refl)), IH; [reflexivity|]. intros y Hy. apply H. right. exact Hy.
Qed.

Lemma rule_tls_consistent_frame cs l' r bs :
  (forall b, In b bs -> tracked_agree cs l' r b) ->
  rule_tls_consistent (with_services cs l') r bs = rule_tls_consistent cs r bs.
Proof.
  intros H. unfold rule_tls_consistent. destruct bs as [|b0 bs']; [reflexivity|].
  apply forallb_ext_in. intros b Hb.
  rewrite (backend_tls_frame cs l' r b (H b Hb)), (backend_tls_frame cs l' r b0 (H b0 (or_introl eq_refl))). reflexivity.
Qed.

Lemma expected_backends_frame cs l' r bs :
  (forall b, In b bs -> tracked_agree cs l' r b) ->
  expected_backends (with_services cs l') r bs = expected_backends cs r bs.
Proof.
  intros H. unfold expected_backends. rewrite (rule_tls_consistent_frame cs l' r bs H).
  destruct (fold_left _ bs 0%Z =? 0)%Z; [reflexivity|].
  apply map_ext_in. intros b Hb. rewrite (backend_valid_frame cs l' r b (H b Hb)). reflexivity.
Qed.

Lemma filter_ext_in' {A} (f g : A -> bool) l : (forall x, In x l -> f x = g x) -> filter f l = filter g l.
Proof.
  induction l as [|x l IH]; intros H; simpl; [reflexivity|].
  rewrite (H x (or_introl eq_refl)), IH; [reflexivity|]. intros y Hy. apply H. right. exact Hy.
Qed.

Definition tls_choice (cs : cluster) (r : route) (bs : list backend) : option (string * string) :=
  match filter (fun b => match backend_tls cs r b with Some _ => true | None => false end) bs with
  | b :: _ => backend_tls cs r b
  | [] => None
  end.

Lemma tls_choice_frame cs l' r bs :
  (forall b, In b bs -> tracked_agree cs l' r b) ->
  tls_choice (with_services cs l') r bs = tls_choice cs r bs.
Proof.
  intros H. unfold tls_choice.
  rewrite (filter_ext_in' (fun b => match backend_tls (with_services cs l') r b with Some _ => true | None => false end)
                          (fun b => match backend_tls cs r b with Some _ => true | None => false end) bs).
  2:{ intros b Hb. rewrite (backend_tls_frame cs l' r b (H b Hb)). reflexivity. }
  destruct (filter _ bs) as [|b rest] eqn:Hfl; [reflexivity|].
  apply backend_tls_frame. apply H.
  assert (Hin : In b (b :: rest)) by (left; reflexivity). rewrite <- Hfl in Hin. apply filter_In in Hin. exact (proj1 Hin).
Qed.

(* a change to Services that no backend of the rule names does not change what the rule does *)
Theorem unreferenced_services_are_irrelevant cs l' r ru :
  (forall b, In b (r_backends ru) -> tracked_agree cs l' r b) ->
  rule_outcome (with_services cs l') r ru = rule_outcome cs r ru.
Proof.
  intros H. unfold rule_outcome.
  fold (tls_choice (with_services cs l') r (r_backends ru)). fold (tls_choice cs r (r_backends ru)).
  rewrite (expected_backends_frame cs l' r (r_backends ru) H), (rule_tls_consistent_frame cs l' r (r_backends ru) H),
          (tls_choice_frame cs l' r (r_backends ru) H).
  reflexivity.
Qed.

(* creation of a Service nobody names, as an instance *)
Corollary new_unreferenced_service_is_irrelevant cs s r ru :
  (forall b, In b (r_backends ru) -> negb (seqb (s_ns s) (backend_ns r b) && seqb (s_name s) (b_name b)) = true) ->
  rule_outcome (with_services cs (s :: c_services cs)) r ru = rule_outcome cs r ru.
Proof.
  intros H. apply unreferenced_services_are_irrelevant. intros b Hb _ port. simpl.
  specialize (H b Hb). apply negb_true_iff in H. rewrite H. reflexivity.
Qed.

(* ---- Secrets *)

Definition secrets_agree (l l' : list secret) (ns name : string) : Prop :=
  existsb (fun s => seqb (sec_ns s) ns && seqb (sec_name s) name && sec_ok s) l =
  existsb (fun s => seqb (sec_ns s) ns && seqb (sec_name s) name && sec_ok s) l'.

Theorem unreferenced_secrets_are_irrelevant cs l' g l :
  (forall cr, l_cert l = Some cr ->
     secrets_agree (c_secrets cs) l' (match cr_ns cr with Some n => n | None => g_ns g end) (cr_name cr)) ->
  listener_valid (with_secrets cs l') g l = listener_valid cs g l.
Proof.
  intros H. unfold listener_valid, listener_sound, cert_ok.
  destruct (l_proto l); try reflexivity.
  destruct (l_cert l) as [cr|] eqn:Hc; [|reflexivity].
  change (c_secrets (with_secrets cs l')) with l'.
  specialize (H cr eq_refl). unfold secrets_agree in H. rewrite <- H. reflexivity.
Qed.

(* ---- lifted to the whole routing decision: a change to Services that no backendRef of any Route names changes the answer to
   no request *)

Lemma index_from_snd {A} (l : list A) : forall i x, In x (index_from i l) -> In (snd x) l.
Proof.
  induction l as [|a l IH]; intros i x H; simpl in H; [contradiction|].
  destruct H as [<-|H]; [left; reflexivity|right; exact (IH (S i) x H)].
Qed.

Lemma route_cands_facts r c : In c (route_cands r) -> cd_route c = r /\ In (cd_rule c) (rt_rules r).
Proof.
  unfold route_cands. intros H. apply in_flat_map in H. destruct H as [ir [Hir H]].
  apply in_map_iff in H. destruct H as [jm [<- _]]. simpl. split; [reflexivity|].
  exact (index_from_snd (rt_rules r) 0 ir Hir).
Qed.

Lemma port_bindings_routes cs g port b : In b (port_bindings cs g port) -> In (snd b) (c_routes cs).
Proof.
  unfold port_bindings. intros H. apply in_flat_map in H. destruct H as [l [_ H]].
  destruct ((l_port l =? port)%Z && listener_valid cs g l); [|contradiction].
  apply in_flat_map in H. destruct H as [r [Hr H]]. apply in_map_iff in H. destruct H as [h [<- _]]. exact Hr.
Qed.

Lemma best_cand_in best l : In (best_cand best l) (best :: l).
Proof.
  revert best. induction l as [|c l IH]; intros best; simpl; [left; reflexivity|].
  destruct (precedes c best).
  - destruct (IH c) as [H|H]; [right; left; exact H|right; right; exact H].
  - destruct (IH best) as [H|H]; [left; exact H|right; right; exact H].
Qed.

Lemma group_best_in grp q c : group_best grp q = Some c -> In c grp.
Proof.
  unfold group_best. destruct (filter _ grp) as [|c0 l] eqn:Hf; [discriminate|].
  intros H. inversion H; subst c.
  assert (Hin : In (best_cand c0 l) (filter (fun c => conds_hold (cd_match c) q) grp)) by (rewrite Hf; apply best_cand_in).
  apply filter_In in Hin. exact (proj1 Hin).
Qed.

(* a Route takes part only if it is valid and one of its parentRefs targets the winning Gateway *)
Definition live_route (g : gateway) (r : route) : bool :=
  route_valid r && existsb (fun p => pref_targets g r p) (rt_parents r).

Lemma port_bindings_live cs g port b : In b (port_bindings cs g port) -> live_route g (snd b) = true.
Proof.
  unfold port_bindings. intros H. apply in_flat_map in H. destruct H as [l [_ H]].
  destruct ((l_port l =? port)%Z && listener_valid cs g l); [|contradiction].
  apply in_flat_map in H. destruct H as [r [Hr H]]. apply in_map_iff in H. destruct H as [h [<- Hh]]. simpl.
  unfold attached_hosts in Hh.
  destruct (route_valid r && existsb (fun p => pref_targets g r p && pref_supported p && section_ok p l) (rt_parents r)
            && ns_allowed cs g l (rt_ns r) && kind_allowed l (rt_kind r)) eqn:Hc; [|contradiction].
  apply andb_true_iff in Hc. destruct Hc as [Hc _]. apply andb_true_iff in Hc. destruct Hc as [Hc _].
  apply andb_true_iff in Hc. destruct Hc as [Hv He]. unfold live_route. rewrite Hv. simpl.
  apply existsb_exists in He. destruct He as [p [Hp Hpp]]. apply existsb_exists. exists p. split; [exact Hp|].
  apply andb_true_iff in Hpp. destruct Hpp as [Hpp _]. apply andb_true_iff in Hpp. exact (proj1 Hpp).
Qed.

(* the criterion of the change processor (graph.ReferencedServices): the Services named by backendRefs of valid Routes that
   belong to the winning Gateway. A change to any other Service changes the answer to no request. *)
Theorem unreferenced_services_change_no_answer cs l' q :
  (forall g r ru b, winning_gateway cs = Some g -> In r (c_routes cs) -> live_route g r = true ->
                    In ru (rt_rules r) -> In b (r_backends ru) -> tracked_agree cs l' r b) ->
  decide (with_services cs l') q = decide cs q.
Proof.
  intros H. unfold decide.
  change (winning_gateway (with_services cs l')) with (winning_gateway cs).
  destruct (winning_gateway cs) as [g|] eqn:Hg; [|reflexivity].
  change (valid_listeners_on (with_services cs l') g (q_port q)) with (valid_listeners_on cs g (q_port q)).
  destruct (valid_listeners_on cs g (q_port q)) as [|l0 ls]; [reflexivity|].
  destruct (negb (Bool.eqb (secure (l_proto l0)) (q_tls q))); [reflexivity|].
  change (port_bindings (with_services cs l') g (q_port q)) with (port_bindings cs g (q_port q)).
  change (https_listener_names (with_services cs l') g (q_port q)) with (https_listener_names cs g (q_port q)).
  set (binds := port_bindings cs g (q_port q)).
  match goal with |- match ?X with _ => _ end = _ => destruct X as [x|] end; [|reflexivity].
  match goal with |- (if ?X then _ else _) = _ => destruct X end; [reflexivity|].
  set (cands := flat_map (fun b => if seqb (fst (fst b)) x then route_cands (snd b) else []) binds).
  destruct (best_path None cands (q_path q)) as [p|]; [|reflexivity].
  set (grp := filter (fun c => pathm_eqb (hm_path (cd_match c)) p) cands).
  destruct (group_best grp q) as [c|] eqn:Hc; [|reflexivity].
  f_equal.
  apply group_best_in in Hc. unfold grp in Hc. apply filter_In in Hc. destruct Hc as [Hc _].
  unfold cands in Hc. apply in_flat_map in Hc. destruct Hc as [b [Hb Hc]].
  destruct (seqb (fst (fst b)) x); [|contradiction].
  destruct (route_cands_facts (snd b) c Hc) as [Hr Hru].
  apply unreferenced_services_are_irrelevant. intros be Hbe.
  apply (H g (cd_route c) (cd_rule c) be eq_refl).
  - rewrite Hr. exact (port_bindings_routes cs g (q_port q) b Hb).
  - rewrite Hr. exact (port_bindings_live cs g (q_port q) b Hb).
  - rewrite Hr. exact Hru.
  - exact Hbe.
Qed.

(* ---- the same for Secrets: a change to Secrets that no listener's certificateRef names changes the answer to no request *)

Lemma flat_map_ext_in' {A B} (f g : A -> list B) l : (forall x, In x l -> f x = g x) -> flat_map f l = flat_map g l.
Proof.
  induction l as [|x l IH]; intros H; simpl; [reflexivity|].
  rewrite (H x (or_introl eq_refl)), IH; [reflexivity|]. intros y Hy. apply H. right. exact Hy.
Qed.

Definition listeners_agree (cs : cluster) (l' : list secret) (g : gateway) : Prop :=
  forall l cr, In l (g_listeners g) -> l_cert l = Some cr ->
    secrets_agree (c_secrets cs) l' (match cr_ns cr with Some n => n | None => g_ns g end) (cr_name cr).

Lemma valid_listeners_frame cs l' g port :
  listeners_agree cs l' g -> valid_listeners_on (with_secrets cs l') g port = valid_listeners_on cs g port.
Proof.
  intros H. unfold valid_listeners_on. apply filter_ext_in'. intros l Hl.
  rewrite (unreferenced_secrets_are_irrelevant cs l' g l (fun cr Hcr => H l cr Hl Hcr)). reflexivity.
Qed.

Lemma port_bindings_frame cs l' g port :
  listeners_agree cs l' g -> port_bindings (with_secrets cs l') g port = port_bindings cs g port.
Proof.
  intros H. unfold port_bindings. apply flat_map_ext_in'. intros l Hl.
  rewrite (unreferenced_secrets_are_irrelevant cs l' g l (fun cr Hcr => H l cr Hl Hcr)). reflexivity.
Qed.

Lemma https_names_frame cs l' g port :
  listeners_agree cs l' g -> https_listener_names (with_secrets cs l') g port = https_listener_names cs g port.
Proof. intros H. unfold https_listener_names. rewrite (valid_listeners_frame cs l' g port H). reflexivity. Qed.

Theorem unreferenced_secrets_change_no_answer cs l' q :
  (forall g, listeners_agree cs l' g) -> decide (with_secrets cs l') q = decide cs q.
Proof.
  intros H. unfold decide.
  change (winning_gateway (with_secrets cs l')) with (winning_gateway cs).
  destruct (winning_gateway cs) as [g|]; [|reflexivity].
  rewrite (valid_listeners_frame cs l' g (q_port q) (H g)), (port_bindings_frame cs l' g (q_port q) (H g)),
          (https_names_frame cs l' g (q_port q) (H g)).
  reflexivity.
Qed.

(* ---- Namespaces: they matter only through the label selectors of listeners. A change to Namespaces under which every selector
   of every listener gives the same verdict for every Namespace changes the answer to no request. The change processor's
   criterion - the Namespace matched a selector when the graph was built, or matches one now - is the instance "both verdicts
   are false". *)

Definition with_namespaces (cs : cluster) (l : list nsobj) : cluster :=
  {| c_classes := c_classes cs; c_gateways := c_gateways cs; c_routes := c_routes cs; c_services := c_services cs;
     c_secrets := c_secrets cs; c_grants := c_grants cs; c_namespaces := l; c_btps := c_btps cs; c_cms := c_cms cs |}.

Definition selector_verdict (nss : list nsobj) (sel : list (string * string)) (rns : string) : bool :=
  match find (fun n => seqb (n_name n) rns) nss with
  | Some n => labels_match sel (n_labels n)
  | None => false
  end.

Definition selectors_agree (cs : cluster) (l' : list nsobj) : Prop :=
  forall sel rns, selector_verdict (c_namespaces cs) sel rns = selector_verdict l' sel rns.

Lemma ns_allowed_frame cs l' g l rns :
  selectors_agree cs l' -> ns_allowed (with_namespaces cs l') g l rns = ns_allowed cs g l rns.
Proof.
  intros H. unfold ns_allowed. destruct (l_from l) as [| |sel]; try reflexivity.
  change (c_namespaces (with_namespaces cs l')) with l'.
  fold (selector_verdict l' sel rns). fold (selector_verdict (c_namespaces cs) sel rns). symmetry. apply H.
Qed.

Lemma attached_hosts_ns_frame cs l' g l r :
  selectors_agree cs l' -> attached_hosts (with_namespaces cs l') g l r = attached_hosts cs g l r.
Proof. intros H. unfold attached_hosts. rewrite (ns_allowed_frame cs l' g l (rt_ns r) H). reflexivity. Qed.

Lemma port_bindings_ns_frame cs l' g port :
  selectors_agree cs l' -> port_bindings (with_namespaces cs l') g port = port_bindings cs g port.
Proof.
  intros H. unfold port_bindings. apply flat_map_ext_in'. intros l _.
  change (listener_valid (with_namespaces cs l') g l) with (listener_valid cs g l).
  destruct ((l_port l =? port)%Z && listener_valid cs g l); [|reflexivity].
  apply flat_map_ext_in'. intros r _. rewrite (attached_hosts_ns_frame cs l' g l r H). reflexivity.
Qed.

Lemma https_names_ns_frame cs l' g port :
  selectors_agree cs l' -> https_listener_names (with_namespaces cs l') g port = https_listener_names cs g port.
Proof.
  intros H. unfold https_listener_names.
  change (valid_listeners_on (with_namespaces cs l') g port) with (valid_listeners_on cs g port).
  apply flat_map_ext_in'. intros l _. destruct (l_proto l); try reflexivity.
  assert (He : existsb (fun r => match attached_hosts (with_namespaces cs l') g l r with [] => false | _ => true end) (c_routes cs) =
               existsb (fun r => match attached_hosts cs g l r with [] => false | _ => true end) (c_routes cs)).
  { induction (c_routes cs) as [|r rs IH]; simpl; [reflexivity|].
    rewrite (attached_hosts_ns_frame cs l' g l r H), IH. reflexivity. }
  change (c_routes (with_namespaces cs l')) with (c_routes cs). rewrite He. reflexivity.
Qed.

Theorem irrelevant_namespace_changes_change_no_answer cs l' q :
  selectors_agree cs l' -> decide (with_namespaces cs l') q = decide cs q.
Proof.
  intros H. unfold decide.
  change (winning_gateway (with_namespaces cs l')) with (winning_gateway cs).
  destruct (winning_gateway cs) as [g|]; [|reflexivity].
  change (valid_listeners_on (with_namespaces cs l') g (q_port q)) with (valid_listeners_on cs g (q_port q)).
  rewrite (port_bindings_ns_frame cs l' g (q_port q) H), (https_names_ns_frame cs l' g (q_port q) H).
  reflexivity.
Qed.
