"""C19 check configuration."""


def setup(register, COMMON_TB):
    register(
        "C19", coq="C19", pkg="./internal/mode/static/telemetry/", test="TestVerifC19",
        timeout={"quick": 900, "thorough": 7200},
        rule="generated graph + configuration + cluster objects + flag set per case (sizes ramp with the index); snippets from four "
             "streams: tidy (as in collector_test.go), structured (quoted ';', tabs/newlines/CR between tokens, comments, nested "
             "blocks incl. map bodies, ${...}, backslash escapes, quoted names), mutated (one byte of a structured snippet changed) and "
             "byte soup over the characters that matter; non-trivial = at least one non-tidy snippet, a non-empty directive report "
             "and a non-empty route/policy/upstream collection; distinct = distinct case terms",
        trusted_base=COMMON_TB + [
            "Spec.v ngx_lex is a hand-written, lenient model of NGINX's ngx_conf_read_token (no NGINX binary in the sandbox); "
            "\"directive name\" = first word of a statement at block depth 0 of the snippet, token text verbatim without the enclosing quotes",
            "the graph/configuration handed to Collect is generated directly (graph.Graph / dataplane.Configuration values), not built "
            "from Kubernetes objects; the Coq side sees the collection sizes and per-entry fields the collector reads",
            "controller-runtime fake client stands for the API server (Node, Namespace, Pod, ReplicaSet reads)",
            "flags: the real parseFlags over the real static-mode cobra/pflag flag set, run in a sub-process (package main cannot be "
            "imported); pflag bool flags print as true/false (flag_wf), observed on every scenario",
            "old-variant model parse_old models strings.TrimSpace for one-byte characters only (the generators produce no multi-byte "
            "Unicode spaces)",
        ],
        assumptions=[
            "the exporter sends exactly the fields of telemetry.Data (all of them are inspected by reflection; a field of an unknown "
            "name or shape fails the oracle)",
            "ClusterVersion is checked to be 'unknown' or digits and dots, ClusterPlatform to be a fixed word or other_<scheme of the "
            "node's providerID>; ids/version/architecture/image source to equal their documented sources",
            "TargetRefs[0] decides Gateway- vs Route-attached for a ClientSettingsPolicy (its API has a single targetRef)",
        ],
    )
