(* C02 — "which ... rewrite ... is what Gateway API semantics prescribe": URLRewrite / RequestRedirect with ReplacePrefixMatch
   (nginx/config/servers.go: createMainRewriteForFilters).

   The generator writes, for a path rule with prefix P and replacement R, one of two rewrite directives
       rewrite ^P<capture everything up to a question mark, optional>  <repl>$1?$args? ...
       rewrite ^P<optional group: a slash, then the same capture>       <repl>$1?$args? ...   (the slash is not captured)
   (the exact texts are in [rw_text])
   into the locations of the rule. [main_rewrite] is the choice the function makes and the text it writes; [apply] is what
   NGINX's rewrite does with a request path under such a directive (the whole URI is replaced by the replacement with $1
   substituted when the regular expression matches a prefix of it). Paths are lists of characters without '?'. *)
From Coq Require Import List String Ascii Bool Arith.
From NGF Require Import lib.Str.
Import ListNotations.

Definition chars := list ascii.
Definition slash : ascii := "/"%char.

Definition ends_slash (l : chars) : bool :=
  match rev l with c :: _ => Ascii.eqb c slash | [] => false end.

Definition strip_slash (l : chars) : chars := if ends_slash l then removelast l else l.

Record rw := RW {
  rw_optslash : bool;      (* the second form *)
  rw_prefix : chars;       (* P, matched literally *)
  rw_repl : chars          (* the replacement up to $1 *)
}.

Definition main_rewrite (P R : chars) : rw :=
  let fp := match R with [] => [slash] | _ => R end in
  RW (ends_slash fp && negb (ends_slash P)) P
     (if ends_slash P && negb (ends_slash fp) then fp ++ [slash] else fp).

(* regexp.QuoteMeta *)
Definition is_meta (c : ascii) : bool :=
  existsb (Ascii.eqb c) (chars_of "\.+*?()|[]{}^$").
Definition quote_meta (l : chars) : chars := flat_map (fun c => if is_meta c then ["\"%char; c] else [c]) l.

Definition rw_text (r : rw) : string :=
  string_of ("^"%char :: quote_meta (rw_prefix r) ++
             chars_of (if rw_optslash r then "(?:/([^?]*))?" else "([^?]*)?") ++ " "%char :: rw_repl r ++ chars_of "$1?$args?").

(* NGINX rewrite under such a directive: None = the regular expression does not match, the URI stays *)
Definition apply (r : rw) (q : chars) : option chars :=
  if is_prefix_l (rw_prefix r) q then
    let rest := skipn (List.length (rw_prefix r)) q in
    let cap := if rw_optslash r
               then match rest with c :: rest' => if Ascii.eqb c slash then rest' else [] | [] => [] end
               else rest in
    Some (rw_repl r ++ cap)
  else None.

(* the request paths that reach the locations of a PathPrefix rule with path P (C02/PathSel.v: location "P/" and "= P",
   or just location "P" when P ends with a slash) *)
Definition reaches (P q : chars) : Prop :=
  if ends_slash P then exists xs, q = P ++ xs
  else q = P \/ exists xs, q = P ++ slash :: xs.

(* what Gateway API prescribes (HTTPPathModifier, ReplacePrefixMatch): the matched prefix - a trailing slash of it does not
   count - is replaced by R - a trailing slash of it does not count either -, the rest of the path stays, and the result is
   never empty. When the request path is the prefix itself the result is R as written. *)
Definition expected (P R q : chars) : chars :=
  match skipn (List.length (strip_slash P)) q with
  | [] => match R with [] => [slash] | _ => R end
  | rem => strip_slash R ++ rem
  end.
