From Coq Require Import String Ascii List Bool Arith ZArith Lia Permutation.
From NGF Require Import C19.Spec C19.Model.
Import ListNotations.
Local Open Scope string_scope.
Local Open Scope list_scope.

(* ------------------------------------------------------------------ names of statements, streaming form *)

Definition nonempty (w : string) : bool := negb (w =? "").

Definition tn_step (df : nat * bool) (t : tok) : (nat * bool) * list string :=
  match t with
  | TWord w => ((fst df, false), if snd df && (fst df =? 0)%nat then [w] else [])
  | TSemi => ((fst df, true), [])
  | TOpen => ((S (fst df), true), [])
  | TClose => ((pred (fst df), true), [])
  end.

Fixpoint tn_run (df : nat * bool) (ts : list tok) : (nat * bool) * list string :=
  match ts with
  | [] => (df, [])
  | t :: r => let (df', o) := tn_step df t in let (df'', o') := tn_run df' r in (df'', o ++ o')
  end.

Lemma tn_run_app : forall a b df,
  tn_run df (a ++ b) =
  let (df', o) := tn_run df a in let (df'', o') := tn_run df' b in (df'', o ++ o').
Proof.
  induction a as [|t a IH]; intros b df; simpl.
  - destruct (tn_run df b); reflexivity.
  - destruct (tn_step df t) as [df1 o1]. rewrite IH.
    destruct (tn_run df1 a) as [df2 o2]. destruct (tn_run df2 b) as [df3 o3].
    rewrite app_assoc. reflexivity.
Qed.

Definition head_out (d : nat) (cur : list string) : list string :=
  match cur with
  | [] => []
  | w :: _ => if (d =? 0)%nat then [w] else []
  end.

Lemma name_of_head_out : forall d cur, name_of (d, cur) = head_out d cur.
Proof. intros [|d] [|w cur]; reflexivity. Qed.

Lemma stmts_names : forall ts d cur,
  flat_map name_of (stmts d cur ts) =
  head_out d cur ++ snd (tn_run (d, match cur with [] => true | _ => false end) ts).
Proof.
  induction ts as [|t ts IH]; intros d cur.
  - simpl. rewrite app_nil_r, app_nil_r. apply name_of_head_out.
  - destruct t as [w| | |]; simpl stmts.
    + rewrite IH. simpl tn_run.
      destruct (tn_run (d, false) ts) as [df o] eqn:E.
      destruct cur as [|x cur]; simpl.
      * rewrite E. simpl. destruct (d =? 0)%nat; reflexivity.
      * rewrite E. simpl. destruct (d =? 0)%nat; reflexivity.
    + cbn [flat_map]. rewrite IH, name_of_head_out. simpl.
      destruct (tn_run (d, true) ts) as [df o]. reflexivity.
    + cbn [flat_map]. rewrite IH, name_of_head_out. simpl.
      destruct (tn_run (S d, true) ts) as [df o]. reflexivity.
    + cbn [flat_map]. rewrite IH, name_of_head_out. simpl.
      destruct (tn_run (pred d, true) ts) as [df o]. reflexivity.
Qed.

Lemma directive_names_stream : forall s, directive_names s = snd (tn_run (0, true) (ngx_lex s)).
Proof. intros s. unfold directive_names, snippet_stmts. rewrite stmts_names. reflexivity. Qed.

(* ------------------------------------------------------------------ the scanner is the lexer fused with the grouping *)

Definition lwf (st : lst) : Prop :=
  (l_last_space st = true ->
     l_quoted st = false /\ l_variable st = false /\ l_dq st = false /\ l_sq st = false /\ l_cur st = "") /\
  (l_comment st = true -> l_last_space st = true) /\
  (l_dq st = true -> l_sq st = false).

Definition abs (st : lst) (d : nat) (fresh : bool) : sst :=
  mkS (l_cur st) (if l_dq st then QDq else if l_sq st then QSq else QNone) (negb (l_last_space st))
      (l_quoted st) (l_variable st) (l_comment st) (negb fresh) d.

Lemma lwf_init : lwf l_init.
Proof. unfold lwf, l_init; simpl; intuition congruence. Qed.

Lemma step_sim : forall st c d fresh, lwf st ->
  lwf (fst (lex_step st c)) /\
  scan_step (abs st d fresh) c =
    (abs (fst (lex_step st c)) (fst (fst (tn_run (d, fresh) (snd (lex_step st c)))))
         (snd (fst (tn_run (d, fresh) (snd (lex_step st c))))),
     filter nonempty (snd (tn_run (d, fresh) (snd (lex_step st c))))).
Proof.
  intros [ls q v dq sq cm cur] c d fresh [H1 [H2 H3]]. simpl in H1, H2, H3.
  unfold lex_step, scan_step, abs, end_token, set_named_depth, lwf, nonempty; simpl.
  destruct cm.
  { (* in a comment *)
    specialize (H2 eq_refl). subst ls. destruct (H1 eq_refl) as (-> & -> & -> & -> & ->).
    destruct (classify c); simpl; (split; [intuition congruence | try reflexivity]). }
  clear H2.
  destruct q.
  { destruct ls; [destruct (H1 eq_refl) as (? & _); discriminate|].
    simpl. split; [intuition congruence|].
    destruct dq, sq; try reflexivity. }
  destruct ls.
  { destruct (H1 eq_refl) as (_ & -> & -> & -> & ->). clear H1 H3.
    destruct (classify c); simpl; (split; [intuition congruence|]);
      destruct fresh; simpl; try reflexivity. }
  clear H1.
  destruct dq.
  { rewrite (H3 eq_refl). clear H3.
    destruct (classify c), v; simpl; (split; [intuition congruence|]);
      destruct fresh, (d =? 0)%nat, (cur =? "") eqn:Ec; simpl; rewrite ?Ec; try reflexivity. }
  clear H3.
  destruct sq.
  { destruct (classify c), v; simpl; (split; [intuition congruence|]);
      destruct fresh, (d =? 0)%nat, (cur =? "") eqn:Ec; simpl; rewrite ?Ec; try reflexivity. }
  destruct (classify c), v; simpl; (split; [intuition congruence|]);
    destruct fresh, (d =? 0)%nat eqn:Ed, (cur =? "") eqn:Ec; simpl; rewrite ?Ed, ?Ec; try reflexivity.
Qed.

Lemma scan_sim : forall s st d fresh, lwf st ->
  scan_from (abs st d fresh) s = filter nonempty (snd (tn_run (d, fresh) (lex_from st s))).
Proof.
  induction s as [|c s IH]; intros st d fresh W.
  - destruct st as [ls q v dq sq cm cur]. destruct W as [H1 _]. simpl in *.
    unfold end_token, nonempty; simpl.
    destruct ls; simpl.
    + reflexivity.
    + destruct fresh, (d =? 0)%nat, (cur =? "") eqn:Ec; simpl; rewrite ?Ec; reflexivity.
  - simpl. destruct (step_sim st c d fresh W) as [W' E].
    rewrite E. destruct (lex_step st c) as [st' toks]. simpl in *.
    rewrite tn_run_app. destruct (tn_run (d, fresh) toks) as [[d' fresh'] o]. simpl.
    rewrite (IH st' d' fresh' W').
    destruct (tn_run (d', fresh') (lex_from st' s)) as [df o']. simpl.
    rewrite filter_app. reflexivity.
Qed.

(* the repaired parser returns exactly the non-empty directive names of the snippet, in order *)
Lemma parse_directives_exact : forall s, parse_directives s = filter nonempty (directive_names s).
Proof.
  intros s. rewrite directive_names_stream. unfold parse_directives, ngx_lex.
  change s_init with (abs l_init 0 true). apply scan_sim, lwf_init.
Qed.

Lemma parse_directives_sound : forall s w, In w (parse_directives s) -> In w (directive_names s) /\ w <> "".
Proof.
  intros s w H. rewrite parse_directives_exact in H. apply filter_In in H. destruct H as [H1 H2].
  split; [exact H1|]. unfold nonempty in H2. intros ->. discriminate.
Qed.
