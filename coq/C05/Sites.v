(* C05 — every explicit panic and constant-index expression of the anchored files (gen/Inventory.v,
   regenerated from /repo on every check) must be one that has been looked at: the table gives, per
   (file, function, kind, expression), why it cannot fire on admissible input (or which finding it is).
   A new or moved site makes [C05_inventory_accounted_for] fail: the tie is broken until the site is
   classified. *)
From Coq Require Import List String Bool.
From NGF Require Import lib.Str gen.Inventory.
Import ListNotations.
Local Open Scope string_scope.

Inductive why :=
| Unreachable (reason : string)     (* excluded by an invariant or by validation that precedes it *)
| TypeSwitch                        (* default branch of a switch over a closed set of Go types / kinds *)
| Finding (id : string).            (* reachable: recorded finding *)

Definition site_table : list (string * string * string * string * why) := [
  ("handler.go", "nginxGatewayCRDUpsert", "panic", "", TypeSwitch);
  ("handler.go", "nginxGatewayServiceUpsert", "panic", "", TypeSwitch);
  ("handler.go", "parseAndCaptureEvent", "panic", "", TypeSwitch);
  ("nginx/config/main_config.go", "generateMgmtFiles", "panic", "", Finding "D35 (Plus and a foreign-controlled configured class), D30 (usage Secret without license.jwt)");
  ("nginx/config/servers.go", "executeServers", "panic", "", Unreachable "json.Marshal of a map of string-only structs cannot fail");
  ("nginx/config/servers.go", "needsInternalLocations", "index", "MatchRules[0]", Unreachable "guarded by len(rule.MatchRules) == 1");
  ("state/dataplane/configuration.go", "buildServers", "panic", "", Unreachable "C05.Proofs.build_servers_never_panics: every hostname with rules has a listener");
  ("state/dataplane/convert.go", "convertPathType", "panic", "", Unreachable "rules whose match has another path type fail validatePathMatch and are skipped (ValidMatches)");
  ("state/graph/backend_refs.go", "findBackendTLSPolicyForService", "index", "Conditions[0]", Unreachable "guarded by len(Conditions) > 0 (finding D41, repaired: an ignored policy has no condition)");
  ("state/graph/backend_refs.go", "getRefGrantFromResourceForRoute", "panic", "", TypeSwitch);
  ("state/graph/backend_tls_policy.go", "processBackendTLSPolicies", "index", "CACertificateRefs[0]", Unreachable "guarded by len(CACertificateRefs) > 0 (finding D29, repaired)");
  ("state/graph/backend_tls_policy.go", "validateBackendTLSCACertRef", "index", "CACertificateRefs[0]", Unreachable "called only when len(caCertRefs) > 0");
  ("state/graph/common_filter.go", "validateFilter", "panic", "", TypeSwitch);
  ("state/graph/gateway_listener.go", "createExternalReferencesForTLSSecretsResolver", "index", "CertificateRefs[0]", Unreachable "resolvers run only if the HTTPS validator passed, which requires a certificateRef");
  ("state/graph/gateway_listener.go", "createHTTPSListenerValidator", "index", "CertificateRefs[0]", Unreachable "after the len(CertificateRefs) == 0 early return");
  ("state/graph/graph.go", "IsNGFPolicyRelevant", "panic", "", Unreachable "the change processor never passes a nil policy");
  ("state/graph/graph.go", "setPlusSecretContent", "panic", "", Finding "D30 (usage Secret updated without its expected key)");
  ("state/graph/route_common.go", "CreateRouteKey", "panic", "", TypeSwitch);
  ("state/graph/route_common.go", "convertRouteType", "panic", "", TypeSwitch);
  ("state/graph/route_common.go", "routeKeyForKind", "panic", "", TypeSwitch);
  ("state/graph/tlsroute.go", "buildTLSRoute", "index", "Rules[0]", Unreachable "after the len(Spec.Rules) != 1 check");
  ("state/graph/tlsroute.go", "validateBackendRefTLSRoute", "index", "BackendRefs[0]", Unreachable "after the len(BackendRefs) != 1 check in buildTLSRoute");
  ("state/graph/tlsroute.go", "validateBackendRefTLSRoute", "index", "Rules[0]", Unreachable "after the len(Spec.Rules) != 1 check in buildTLSRoute");
  ("state/resolver/resolver.go", "Resolve", "panic", "", Unreachable "callers pass a non-empty Service namespace/name taken from a backendRef");
  ("state/store.go", "assertSupportedGVK", "panic", "", Unreachable "every watched kind is in the change-tracking table (C01 table check)");
  ("state/store.go", "mustFindStoreForObj", "panic", "", Unreachable "every tracked kind has an object store");
  ("state/store.go", "upsert", "panic", "", TypeSwitch);
  ("status/prepare_requests.go", "PrepareRouteRequests", "panic", "", TypeSwitch)
].

Definition site_known (s : string * string * string * string) : bool :=
  let '(f, fn, k, t) := s in
  existsb (fun e => let '(f', fn', k', t', _) := e in seqb f f' && seqb fn fn' && seqb k k' && seqb t t') site_table.

Definition inventory_ok : bool := forallb site_known inventory.

(* and the table has no stale entry: every classified site still exists *)
Definition table_fresh : bool :=
  forallb (fun e => let '(f, fn, k, t, _) := e in
                    existsb (fun s => let '(f', fn', k', t') := s in seqb f f' && seqb fn fn' && seqb k k' && seqb t t') inventory)
          site_table.

Lemma inventory_accounted_for : inventory_ok = true.
Proof. vm_compute. reflexivity. Qed.

Lemma table_has_no_stale_entry : table_fresh = true.
Proof. vm_compute. reflexivity. Qed.
