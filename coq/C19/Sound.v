(* C19 — the model's own output satisfies the oracle of Check.v (ties the oracle to the theorems). *)
From Coq Require Import String Ascii List Bool Arith ZArith Lia.
From NGF Require Import C19.Spec C19.Model C19.Proofs C19.Check.
Import ListNotations.
Local Open Scope string_scope.
Local Open Scope list_scope.

Lemma oracle_dirs_sound : forall c,
  (o_dirs (c_obs c), o_dircounts (c_obs c)) = collect_directives parse_directives (g_sfs (c_g c)) ->
  oracle_dirs c = true.
Proof.
  intros c H. unfold oracle_dirs.
  assert (H1 : o_dirs (c_obs c) = fst (collect_directives parse_directives (g_sfs (c_g c)))) by (rewrite <- H; reflexivity).
  assert (H2 : o_dircounts (c_obs c) = snd (collect_directives parse_directives (g_sfs (c_g c)))) by (rewrite <- H; reflexivity).
  rewrite H1, H2. apply andb_true_iff. split.
  - apply Nat.eqb_eq, collect_lengths.
  - apply forallb_forall. intros e He. apply mem_str_In.
    apply report_names_only in He. destruct He as (snippets & ctx & value & name & A & B & C & ->).
    unfold allowed_entries. apply in_flat_map. exists (Some snippets). split; [exact A|].
    apply in_flat_map. exists (ctx, value). split; [exact B|].
    unfold snippet_entries. apply in_map_iff. exists name. split; [reflexivity | exact C].
Qed.

Local Arguments Z.of_nat : simpl never.
Local Arguments Z.eqb : simpl never.
Local Arguments count_if : simpl never.
Local Arguments zsum : simpl never.

Lemma oracle_counts_sound : forall c,
  o_ints (c_obs c) =
    resource_counts (c_g c) ++ [("ClusterNodeCount", e_nodes (c_env c)); ("NGFReplicaCount", e_replicas (c_env c))] ->
  oracle_counts c = true.
Proof.
  intros c H. unfold oracle_counts, int_ok. rewrite H, resource_counts_spec.
  unfold spec_counts. simpl. rewrite !Z.eqb_refl. reflexivity.
Qed.

Lemma forallb2_reduced : forall fs, Forall flag_wf fs -> forallb2 reduced fs (map flag_value fs) = true.
Proof.
  induction 1 as [|f fs W _ IH]; simpl; [reflexivity|]. rewrite flag_value_reduced by exact W. exact IH.
Qed.

Lemma list_eqb_refl : forall l, list_eqb String.eqb l l = true.
Proof. induction l as [|x l IH]; simpl; [reflexivity|]. rewrite String.eqb_refl. exact IH. Qed.

Lemma oracle_flags_sound : forall c,
  Forall flag_wf (c_flags c) ->
  (o_flag_names (c_obs c), o_flag_values (c_obs c)) = parse_flags (c_flags c) ->
  oracle_flags c = true.
Proof.
  intros c W H. unfold oracle_flags, parse_flags in *. inversion H as [[H1 H2]].
  rewrite H1, H2, list_eqb_refl. simpl. apply forallb2_reduced. exact W.
Qed.

(* and the model corresponds to itself *)
Lemma corr_dirs_model : forall c,
  (o_dirs (c_obs c), o_dircounts (c_obs c)) = collect_directives parse_directives (g_sfs (c_g c)) ->
  corr_dirs c = true.
Proof.
  intros c H. unfold corr_dirs. rewrite H. unfold dirs_eqb.
  rewrite list_eqb_refl.
  assert (E : forall l, list_eqb Z.eqb l l = true) by (induction l as [|x l IH]; simpl; [reflexivity | rewrite Z.eqb_refl; exact IH]).
  rewrite E. reflexivity.
Qed.
