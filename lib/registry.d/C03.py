"""C03 check configuration."""
import gen


def setup(register, COMMON_TB):
    register(
        "C03", coq="C03", coq_extra=["gen", "ngx"], pkg="./internal/mode/static/", test="TestVerifC03", gen=gen.gen_directives,
        rule="generated admissible cluster states (as C02) with names rewritten into admissible extremes (dots, double hyphens, 50/200-character "
             "suffixes), OSS and Plus; the real handler/graph/configuration/generator output plus the static nginx.conf and include files is "
             "checked by ngx/Wf.v inside Coq; non-trivial = generated http.conf over 2.5 kB; distinct = distinct (state, plus)",
        trusted_base=COMMON_TB + [
            "ngx/Lexer.v, ngx/Wf.v: NGINX tokenizer and well-formedness rules written from the NGINX documentation (no NGINX binary in the sandbox)",
            "gen/Directives.v: directive contexts/arities regenerated from nginx-go-crossplane v0.4.71 (translator harness/pkg/tests/framework/crossplane/...); "
            "three NGINX Plus R33 mgmt directives added by hand in ngx/Wf.v",
            "admission (CRD schema/CEL) approximated by the generator",
        ],
        assumptions=["a directive unknown to both tables is reported as a violation"],
        timeout={"quick": 900, "thorough": 7200},
    )
