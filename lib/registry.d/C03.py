"""C03 check configuration."""
import gen


def setup(register, COMMON_TB):
    register(
        "C03", coq="C03", coq_extra=["gen", "ngx"], pkg="./internal/mode/static/", test="TestVerifC03", gen=gen.gen_c03,
        extra=[dict(pkg="./internal/mode/static/", test="TestVerifTmpl"),
               dict(pkg="./internal/mode/static/state/graph/", test="TestVerifC03Overlap"),
               dict(pkg="./cmd/crossplane/", test="TestVerifLexCross", cwd="tests/framework/crossplane")],
        rule="generated admissible cluster states (as C02) with names rewritten into admissible extremes (dots, double hyphens, 50/200-character "
             "suffixes), OSS and Plus; the real handler/graph/configuration/generator output plus the static nginx.conf and include files is "
             "checked by ngx/Wf.v inside Coq; non-trivial = generated http.conf over 2.5 kB; distinct = distinct (state, plus)"
             " Second part (templates, evaluated by ngx/TmplCheck.v): every execution of every text/template of the generator inside the real pipeline is recorded (wrapper installed around the package variables); the model of the template engine (ngx/Tmpl.v) is run on the parse tree regenerated from the source (gen/Templates.v) and on the data obtained by reflection, and must reproduce the text byte for byte; user-controlled string leaves are holes (marked: the marker-carrying benign value of every leaf; spaced: one leaf followed by a space and a word; states: generated states, every plain string leaf of unnamed type that no template constant equals); the symbolic tokenizer run over the chunks must not hit a lexical error, a hole that needs quoting outside quotes, a hole in directive-name position, or an unfinished token. Third part (TestVerifC03Overlap, evaluated by C03/OverlapCheck.v): the real BuildGraph on a Gateway with 2-4 listeners on up to three ports with exact/wildcard/no hostnames, 2-4 HTTPRoutes (parentRefs with and without sectionName, 0-2 hostnames, 1-2 paths) and 1-3 ObservabilityPolicies with 1-2 targets; observed: accepted hostnames per listener as the graph holds them, TargetConflict per policy; must agree with the model of the overlap check, and no accepted policy may share a location (hostname, listener port, path) with a Route it does not target. Fourth part (TestVerifLexCross, evaluated by ngx/LexCross.v): every .conf file the first 40 (quick) / 400 (thorough) states generated is tokenized by nginx-go-crossplane v0.4.71 (an independent implementation of NGINX's tokenizer): same words, same quoting, same punctuation as ngx/Lexer.v (comments dropped, backslash-quote pairs normalised)",
        trusted_base=COMMON_TB + [
            "ngx/Tmpl.v: model of text/template execution for the subset the repository uses (truth, field access through pointers and string-keyed maps, "
            "printing of strings/integers/booleans, and/or/not/eq, variables with scopes, range/else, if/else); anything else is an error and shows as a mismatch",
            "translator harness/verifutil/tmpl.go (parse tree -> gen/Templates.v, panics on constructs outside the subset; the number of Parse calls in the "
            "sources below internal/ must equal the number of registered template variables) and reflection of template data into Tmpl.value",
            "add-only hook files zz_verif_tmpl.go (build tag verif, overlaid) exposing the addresses of the package-level template variables",
            "ngx/Lexer.v, ngx/Wf.v: NGINX tokenizer and well-formedness rules written from the NGINX documentation (no NGINX binary in the sandbox); the tokenizer is compared with nginx-go-crossplane's lexer on the generated files on every run (fourth part)",
            "gen/Directives.v: directive contexts/arities regenerated from nginx-go-crossplane v0.4.71 (translator harness/pkg/tests/framework/crossplane/...); "
            "three NGINX Plus R33 mgmt directives added by hand in ngx/Wf.v",
            "admission (CRD schema/CEL) approximated by the generator",
        ],
        assumptions=["a directive unknown to both tables is reported as a violation"],
        timeout={"quick": 900, "thorough": 7200},
    )
