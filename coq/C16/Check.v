(* C16 — oracle: for every generated TLS request, the server block that NGINX selects under the REAL
   generated configuration presents the certificate file whose bytes (hash) are cert + newline + key of
   the Secret referenced by the listener that owns the requested name (k8s/Spec.v expected_secret); a
   listener whose Secret is missing, malformed or not permitted serves no certificate at all; proxied
   requests use TLS verification exactly as the BackendTLSPolicy in effect prescribes, with the trusted
   CA file holding the referenced ConfigMap's bundle (checked through the C02 outcome comparison). *)
From Coq Require Import List String ZArith Bool Arith.
From NGF Require Export lib.CaseLib lib.Str k8s.State k8s.Spec ngx.Lexer ngx.Eval C02.Check.
Import ListNotations.
Local Open Scope string_scope.
Local Open Scope list_scope.
Infix "^^" := String.append (at level 55, right associativity).

Record case := Case {
  k_cluster : cluster;
  k_http : string;
  k_matches : matchtable;
  k_requests : list request;
  k_secret_hash : list (string * string * string);   (* namespace, name, hash of cert ++ newline ++ key *)
  k_cm_hash : list (string * string * string);       (* namespace, name, hash of the ConfigMap's ca.crt *)
  k_file_hash : list (string * string)               (* generated file path, hash of its content *)
}.

Definition lookup3 (t : list (string * string * string)) (ns n : string) : option string :=
  match find (fun e => seqb (fst (fst e)) ns && seqb (snd (fst e)) n) t with Some e => Some (snd e) | None => None end.
Definition lookup2 (t : list (string * string)) (p : string) : option string :=
  match find (fun e => seqb (fst e) p) t with Some e => Some (snd e) | None => None end.

Definition pem_path (ns n : string) : string := "/etc/nginx/secrets/ssl_keypair_" ^^ ns ^^ "_" ^^ n ^^ ".pem".

Definition known_D25 := 25.

Definition check_cert (c : case) (conf : list dir) (q : request) : list (nat * string) :=
  if negb (q_tls q) then [] else
  match decide (k_cluster c) q with
  | DOutcome ONoListener _ | DOutcome OTLSReject _ => []        (* no handshake expected; C02 checks the rejection *)
  | _ =>
      match expected_secret (k_cluster c) q, eval_cert conf q with
      | Some (ns, n, ambiguous), Some path =>
          if seqb path (pem_path ns n) then
            match lookup3 (k_secret_hash c) ns n, lookup2 (k_file_hash c) path with
            | Some h1, Some h2 => if seqb h1 h2 then [] else [(code_violation, "certificate file does not hold the Secret's bytes: " ^^ path)]
            | _, _ => [(code_violation, "certificate file or Secret missing: " ^^ path)]
            end
          else if ambiguous then [(code_known known_D25, "two servers for one name (D25): " ^^ path)]
          else if class_D34 (k_cluster c) q then
                 [(code_known 34, "the listener that owns the name has only invalid Routes and lost its own server (D34): " ^^ path)]
          else [(code_violation, "wrong certificate: " ^^ path ^^ " expected " ^^ pem_path ns n)]
      | None, None => []
      | None, Some path => [(code_violation, "a certificate is served where none is expected: " ^^ path)]
      | Some _, None => []       (* handshake rejected although a certificate was expected: reported by the C02 comparison *)
      end
  end.

(* every trusted-CA file referenced for upstream verification holds the ConfigMap's bundle *)
Fixpoint ca_refs (fuel : nat) (d : dir) : list string :=
  match fuel with
  | 0 => []
  | S f =>
      (if seqb (d_name d) "proxy_ssl_trusted_certificate" || seqb (d_name d) "grpc_ssl_trusted_certificate" then [first_arg d] else []) ++
      match d_block d with Some b => flat_map (ca_refs f) b | None => [] end
  end.

Definition check_bundles (c : case) (conf : list dir) : list (nat * string) :=
  flat_map (fun p =>
    if seqb p system_ca then [] else
    match find (fun b => match bt_ca b with
                         | Some cm => seqb p ("/etc/nginx/secrets/cert_bundle_" ^^ bt_ns b ^^ "_" ^^ cm ^^ ".crt")
                         | None => false end) (c_btps (k_cluster c)) with
    | None => [(code_violation, "trusted certificate file of no BackendTLSPolicy: " ^^ p)]
    | Some b =>
        match bt_ca b with
        | Some cm =>
            match lookup3 (k_cm_hash c) (bt_ns b) cm, lookup2 (k_file_hash c) p with
            | Some h1, Some h2 => if seqb h1 h2 then [] else [(code_violation, "CA bundle file does not hold the ConfigMap's bytes: " ^^ p)]
            | _, _ => [(code_violation, "CA bundle file or ConfigMap missing: " ^^ p)]
            end
        | None => []
        end
    end) (flat_map (ca_refs 30) conf).

Definition complaints (c : case) : list (nat * string) :=
  match parse_conf (k_http c) with
  | None => [(code_violation, "http.conf does not parse")]
  | Some conf =>
      flat_map (check_cert c conf) (k_requests c) ++ check_bundles c conf ++
      (* routing outcome including upstream TLS verification (same comparison as C02) *)
      flat_map (fun q => map (fun code => (code, "routing/TLS outcome differs from the specification"))
                             (check_request (k_cluster c) conf (k_matches c) q)) (k_requests c)
  end.

Definition check_case (c : case) : list nat := dedup_nat (map fst (complaints c)).
