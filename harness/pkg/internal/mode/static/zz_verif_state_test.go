//go:build verif

package static

// Abstract cluster states for the pipeline harnesses: one description (vsCluster) gives both the typed
// Kubernetes objects fed to the real controller and the Coq term of k8s/State.v's [cluster].

import (
	"crypto/ecdsa"
	"crypto/elliptic"
	"crypto/rand"
	"crypto/x509"
	"crypto/x509/pkix"
	"encoding/pem"
	"math/big"
	"sort"
	"strconv"
	"time"

	apiv1 "k8s.io/api/core/v1"
	metav1 "k8s.io/apimachinery/pkg/apis/meta/v1"
	"k8s.io/apimachinery/pkg/util/intstr"
	"sigs.k8s.io/controller-runtime/pkg/client"
	gatewayv1 "sigs.k8s.io/gateway-api/apis/v1"
	"sigs.k8s.io/gateway-api/apis/v1alpha2"
	"sigs.k8s.io/gateway-api/apis/v1alpha3"
	"sigs.k8s.io/gateway-api/apis/v1beta1"

	"github.com/nginx/nginx-gateway-fabric/internal/framework/helpers"
	vu "github.com/nginx/nginx-gateway-fabric/internal/verifutil"
)

type vsCertRef struct {
	NS   *string
	Name string
}

type vsListener struct {
	Name     string
	Host     *string
	Port     int32
	Proto    string // HTTP | HTTPS
	Cert     *vsCertRef
	From     string // Same | All | Selector
	Selector [][2]string
	Kinds    []string // nil = not specified
	HasKinds bool
}

type vsGateway struct {
	NS, Name  string
	TS        int64
	Class     string
	Listeners []vsListener
}

type vsClass struct {
	Name       string
	TS         int64
	Controller string
}

type vsParentRef struct {
	NS      *string
	Name    string
	Section *string
	Port    *int32
}

type vsMatch struct {
	Exact   bool
	Path    string
	Method  *string
	Headers [][2]string
	Query   [][2]string
}

type vsBackend struct {
	NS     *string
	Name   string
	Port   int32
	Weight int32
}

type vsPathMod struct {
	Full bool
	Val  string
}

type vsFilter struct {
	Kind   string // redirect | rewrite | reqhdr | resphdr | unsupported
	Scheme *string
	Host   *string
	Port   *int32
	Code   *int
	Path   *vsPathMod
	Set    [][2]string
	Add    [][2]string
	Remove []string
}

type vsRule struct {
	Matches  []vsMatch
	Filters  []vsFilter
	Backends []vsBackend
}

type vsRoute struct {
	GRPC     bool
	NS, Name string
	TS       int64
	Parents  []vsParentRef
	Hosts    []string
	Rules    []vsRule
}

type vsService struct {
	NS, Name string
	Ports    []int32
}

type vsSecret struct {
	NS, Name string
	OK       bool
}

type vsGrantFrom struct{ Group, Kind, NS string }
type vsGrantTo struct {
	Group, Kind string
	Name        *string
}
type vsGrant struct {
	NS, Name string
	From     []vsGrantFrom
	To       []vsGrantTo
}

type vsNamespace struct {
	Name   string
	Labels [][2]string
}

type vsBTP struct {
	NS, Name  string
	TS        int64
	Targets   []string
	Host      string
	CA        *string
	WellKnown bool
	Full      bool // status.ancestors holds 16 entries of other controllers already
}

type vsConfigMap struct {
	NS, Name string
	OK       bool
}

type vsCluster struct {
	BTPs       []vsBTP
	ConfigMaps []vsConfigMap
	Classes    []vsClass
	Gateways   []vsGateway
	Routes     []vsRoute
	Services   []vsService
	Secrets    []vsSecret
	Grants     []vsGrant
	Namespaces []vsNamespace
}

type vsRequest struct {
	Port    int32
	TLS     bool
	SNI     *string
	Host    string
	Path    string
	Method  string
	Headers [][2]string
	Query   [][2]string
}

// ------------------------------------------------------------------------------------------ Coq printing

func vsOptStr(s *string) string { return vu.OptStr(s) }
func vsOptZ32(p *int32) string {
	if p == nil {
		return "None"
	}
	return vu.Some(vu.Z(int64(*p)))
}
func vsPairs(ps [][2]string) string {
	it := make([]string, len(ps))
	for i, p := range ps {
		it[i] = vu.Pair(vu.Str(p[0]), vu.Str(p[1]))
	}
	return vu.List(it)
}
func vsPathModCoq(p *vsPathMod) string {
	if p == nil {
		return "None"
	}
	if p.Full {
		return vu.Some(vu.App("ReplaceFull", vu.Str(p.Val)))
	}
	return vu.Some(vu.App("ReplacePrefix", vu.Str(p.Val)))
}

func (l vsListener) coq() string {
	proto := "PHTTP"
	if l.Proto == "HTTPS" {
		proto = "PHTTPS"
	} else if l.Proto == "TLS" {
		proto = "PTLS"
	} else if l.Proto != "HTTP" {
		proto = "POther"
	}
	cert := "None"
	if l.Cert != nil {
		cert = vu.Some(vu.App("Build_certref", vsOptStr(l.Cert.NS), vu.Str(l.Cert.Name)))
	}
	from := "FromSame"
	switch l.From {
	case "All":
		from = "FromAll"
	case "Selector":
		from = vu.App("FromSelector", vsPairs(l.Selector))
	}
	kinds := "None"
	if l.HasKinds {
		kinds = vu.Some(vu.StrList(l.Kinds))
	}
	return vu.App("Build_listener", vu.Str(l.Name), vsOptStr(l.Host), vu.Z(int64(l.Port)), proto, cert, from, kinds)
}

func (f vsFilter) coq() string {
	switch f.Kind {
	case "redirect":
		code := "None"
		if f.Code != nil {
			code = vu.Some(vu.Z(int64(*f.Code)))
		}
		return vu.App("FRedirect", vsOptStr(f.Scheme), vsOptStr(f.Host), vsOptZ32(f.Port), code, vsPathModCoq(f.Path))
	case "rewrite":
		return vu.App("FRewrite", vsOptStr(f.Host), vsPathModCoq(f.Path))
	case "reqhdr":
		return vu.App("FReqHeaders", vsPairs(f.Set), vsPairs(f.Add), vu.StrList(f.Remove))
	case "resphdr":
		return vu.App("FRespHeaders", vsPairs(f.Set), vsPairs(f.Add), vu.StrList(f.Remove))
	}
	return "FUnsupported"
}

func (c *vsCluster) Coq() string {
	var classes, gws, routes, svcs, secs, grants, nss []string
	for _, x := range c.Classes {
		classes = append(classes, vu.App("Build_gclass", vu.Str(x.Name), vu.Z(x.TS), vu.Str(x.Controller)))
	}
	for _, g := range c.Gateways {
		var ls []string
		for _, l := range g.Listeners {
			ls = append(ls, l.coq())
		}
		gws = append(gws, vu.App("Build_gateway", vu.Str(g.NS), vu.Str(g.Name), vu.Z(g.TS), vu.Str(g.Class), vu.List(ls)))
	}
	for _, r := range c.Routes {
		var ps, rules []string
		for _, p := range r.Parents {
			ps = append(ps, vu.App("Build_parentref", vsOptStr(p.NS), vu.Str(p.Name), vsOptStr(p.Section), vsOptZ32(p.Port)))
		}
		for _, ru := range r.Rules {
			var ms, fs, bs []string
			for _, m := range ru.Matches {
				path := vu.App("PathPrefix", vu.Str(m.Path))
				if m.Exact {
					path = vu.App("PathExact", vu.Str(m.Path))
				}
				ms = append(ms, vu.App("Build_hmatch", path, vsOptStr(m.Method), vsPairs(m.Headers), vsPairs(m.Query)))
			}
			for _, f := range ru.Filters {
				fs = append(fs, f.coq())
			}
			for _, b := range ru.Backends {
				bs = append(bs, vu.App("Build_backend", vsOptStr(b.NS), vu.Str(b.Name), vu.Z(int64(b.Port)), vu.Z(int64(b.Weight))))
			}
			rules = append(rules, vu.App("Build_rule", vu.List(ms), vu.List(fs), vu.List(bs)))
		}
		kind := "KHTTP"
		if r.GRPC {
			kind = "KGRPC"
		}
		routes = append(routes, vu.App("Build_route", kind, vu.Str(r.NS), vu.Str(r.Name), vu.Z(r.TS), vu.List(ps), vu.StrList(r.Hosts), vu.List(rules)))
	}
	for _, s := range c.Services {
		var ps []string
		for _, p := range s.Ports {
			ps = append(ps, vu.Z(int64(p)))
		}
		svcs = append(svcs, vu.App("Build_service", vu.Str(s.NS), vu.Str(s.Name), vu.List(ps)))
	}
	for _, s := range c.Secrets {
		secs = append(secs, vu.App("Build_secret", vu.Str(s.NS), vu.Str(s.Name), vu.Bool(s.OK)))
	}
	for _, g := range c.Grants {
		var fs, ts []string
		for _, f := range g.From {
			fs = append(fs, vu.App("Build_grantfrom", vu.Str(f.Group), vu.Str(f.Kind), vu.Str(f.NS)))
		}
		for _, t := range g.To {
			ts = append(ts, vu.App("Build_grantto", vu.Str(t.Group), vu.Str(t.Kind), vsOptStr(t.Name)))
		}
		grants = append(grants, vu.App("Build_grant", vu.Str(g.NS), vu.List(fs), vu.List(ts)))
	}
	for _, n := range c.Namespaces {
		nss = append(nss, vu.App("Build_nsobj", vu.Str(n.Name), vsPairs(n.Labels)))
	}
	var btps, cms []string
	for _, b := range c.BTPs {
		btps = append(btps, vu.App("Build_btp", vu.Str(b.NS), vu.Str(b.Name), vu.Z(b.TS), vu.StrList(b.Targets), vu.Str(b.Host), vsOptStr(b.CA), vu.Bool(b.WellKnown), vu.Bool(b.Full)))
	}
	for _, m := range c.ConfigMaps {
		cms = append(cms, vu.App("Build_cmap", vu.Str(m.NS), vu.Str(m.Name), vu.Bool(m.OK)))
	}
	return vu.App("Build_cluster", vu.List(classes), vu.List(gws), vu.List(routes), vu.List(svcs), vu.List(secs), vu.List(grants), vu.List(nss), vu.List(btps), vu.List(cms))
}

func (q vsRequest) Coq() string {
	return vu.App("Build_request", vu.Z(int64(q.Port)), vu.Bool(q.TLS), vsOptStr(q.SNI), vu.Str(q.Host), vu.Str(q.Path),
		vu.Str(q.Method), vsPairs(q.Headers), vsPairs(q.Query))
}

// ------------------------------------------------------------------------------------------ typed objects

// vsKeyPairs: distinct key pairs, so that each Secret has its own bytes.
var vsKeyPairs = func() [][2][]byte {
	var out [][2][]byte
	for i := 0; i < 6; i++ {
		out = append(out, vsNewKeyPair(int64(i+2)))
	}
	return out
}()

func vsSecretPair(ns, name string) [2][]byte {
	h := 0
	for _, c := range ns + "/" + name {
		h = (h*31 + int(c)) % 1000003
	}
	return vsKeyPairs[h%len(vsKeyPairs)]
}

var vsKeyPair = vsNewKeyPair(1)

func vsNewKeyPair(serial int64) [2][]byte {
	key, err := ecdsa.GenerateKey(elliptic.P256(), rand.Reader)
	if err != nil {
		panic(err)
	}
	tmpl := x509.Certificate{SerialNumber: big.NewInt(serial), Subject: pkix.Name{CommonName: "verif" + strconv.FormatInt(serial, 10)},
		NotBefore: time.Unix(1700000000, 0), NotAfter: time.Unix(4000000000, 0)}
	der, err := x509.CreateCertificate(rand.Reader, &tmpl, &tmpl, &key.PublicKey, key)
	if err != nil {
		panic(err)
	}
	kb, err := x509.MarshalECPrivateKey(key)
	if err != nil {
		panic(err)
	}
	return [2][]byte{pem.EncodeToMemory(&pem.Block{Type: "CERTIFICATE", Bytes: der}),
		pem.EncodeToMemory(&pem.Block{Type: "EC PRIVATE KEY", Bytes: kb})}
}

func vsTime(ts int64) metav1.Time { return metav1.NewTime(time.Unix(1700000000+ts, 0)) }

func vsNSPtr(s *string) *gatewayv1.Namespace {
	if s == nil {
		return nil
	}
	return helpers.GetPointer(gatewayv1.Namespace(*s))
}

func (c *vsCluster) classObjs() []client.Object {
	var out []client.Object
	for _, x := range c.Classes {
		out = append(out, &gatewayv1.GatewayClass{
			ObjectMeta: metav1.ObjectMeta{Name: x.Name, CreationTimestamp: vsTime(x.TS), Generation: 1},
			Spec:       gatewayv1.GatewayClassSpec{ControllerName: gatewayv1.GatewayController(x.Controller)},
		})
	}
	return out
}

func (g vsGateway) obj() client.Object {
	gw := &gatewayv1.Gateway{
		ObjectMeta: metav1.ObjectMeta{Namespace: g.NS, Name: g.Name, CreationTimestamp: vsTime(g.TS), Generation: g.TS + 1},
		Spec:       gatewayv1.GatewaySpec{GatewayClassName: gatewayv1.ObjectName(g.Class)},
	}
	for _, l := range g.Listeners {
		gl := gatewayv1.Listener{Name: gatewayv1.SectionName(l.Name), Port: gatewayv1.PortNumber(l.Port),
			Protocol: gatewayv1.ProtocolType(l.Proto)}
		if l.Host != nil {
			gl.Hostname = helpers.GetPointer(gatewayv1.Hostname(*l.Host))
		}
		from := gatewayv1.NamespacesFromSame
		ar := &gatewayv1.AllowedRoutes{Namespaces: &gatewayv1.RouteNamespaces{From: &from}}
		switch l.From {
		case "All":
			f := gatewayv1.NamespacesFromAll
			ar.Namespaces.From = &f
		case "Selector":
			f := gatewayv1.NamespacesFromSelector
			ar.Namespaces.From = &f
			ml := map[string]string{}
			for _, kv := range l.Selector {
				ml[kv[0]] = kv[1]
			}
			ar.Namespaces.Selector = &metav1.LabelSelector{MatchLabels: ml}
		}
		if l.HasKinds {
			ar.Kinds = []gatewayv1.RouteGroupKind{}
			for _, k := range l.Kinds {
				ar.Kinds = append(ar.Kinds, gatewayv1.RouteGroupKind{Group: helpers.GetPointer[gatewayv1.Group](gatewayv1.GroupName), Kind: gatewayv1.Kind(k)})
			}
		}
		gl.AllowedRoutes = ar
		if l.Proto == "HTTPS" {
			mode := gatewayv1.TLSModeTerminate
			gl.TLS = &gatewayv1.GatewayTLSConfig{Mode: &mode}
			if l.Cert != nil {
				gl.TLS.CertificateRefs = []gatewayv1.SecretObjectReference{{
					Group: helpers.GetPointer[gatewayv1.Group](""), Kind: helpers.GetPointer[gatewayv1.Kind]("Secret"),
					Name: gatewayv1.ObjectName(l.Cert.Name), Namespace: vsNSPtr(l.Cert.NS),
				}}
			}
		}
		gw.Spec.Listeners = append(gw.Spec.Listeners, gl)
	}
	return gw
}

func vsHdrs(ps [][2]string) []gatewayv1.HTTPHeader {
	var out []gatewayv1.HTTPHeader
	for _, p := range ps {
		out = append(out, gatewayv1.HTTPHeader{Name: gatewayv1.HTTPHeaderName(p[0]), Value: p[1]})
	}
	return out
}

func vsPathModObj(p *vsPathMod) *gatewayv1.HTTPPathModifier {
	if p == nil {
		return nil
	}
	if p.Full {
		return &gatewayv1.HTTPPathModifier{Type: gatewayv1.FullPathHTTPPathModifier, ReplaceFullPath: helpers.GetPointer(p.Val)}
	}
	return &gatewayv1.HTTPPathModifier{Type: gatewayv1.PrefixMatchHTTPPathModifier, ReplacePrefixMatch: helpers.GetPointer(p.Val)}
}

func (f vsFilter) httpObj() gatewayv1.HTTPRouteFilter {
	switch f.Kind {
	case "redirect":
		rr := &gatewayv1.HTTPRequestRedirectFilter{Scheme: f.Scheme, StatusCode: f.Code, Path: vsPathModObj(f.Path)}
		if f.Host != nil {
			rr.Hostname = helpers.GetPointer(gatewayv1.PreciseHostname(*f.Host))
		}
		if f.Port != nil {
			rr.Port = helpers.GetPointer(gatewayv1.PortNumber(*f.Port))
		}
		if rr.StatusCode == nil {
			rr.StatusCode = helpers.GetPointer(302) // CRD default
		}
		return gatewayv1.HTTPRouteFilter{Type: gatewayv1.HTTPRouteFilterRequestRedirect, RequestRedirect: rr}
	case "rewrite":
		rw := &gatewayv1.HTTPURLRewriteFilter{Path: vsPathModObj(f.Path)}
		if f.Host != nil {
			rw.Hostname = helpers.GetPointer(gatewayv1.PreciseHostname(*f.Host))
		}
		return gatewayv1.HTTPRouteFilter{Type: gatewayv1.HTTPRouteFilterURLRewrite, URLRewrite: rw}
	case "reqhdr":
		return gatewayv1.HTTPRouteFilter{Type: gatewayv1.HTTPRouteFilterRequestHeaderModifier,
			RequestHeaderModifier: &gatewayv1.HTTPHeaderFilter{Set: vsHdrs(f.Set), Add: vsHdrs(f.Add), Remove: f.Remove}}
	case "resphdr":
		return gatewayv1.HTTPRouteFilter{Type: gatewayv1.HTTPRouteFilterResponseHeaderModifier,
			ResponseHeaderModifier: &gatewayv1.HTTPHeaderFilter{Set: vsHdrs(f.Set), Add: vsHdrs(f.Add), Remove: f.Remove}}
	}
	return gatewayv1.HTTPRouteFilter{Type: gatewayv1.HTTPRouteFilterRequestMirror,
		RequestMirror: &gatewayv1.HTTPRequestMirrorFilter{BackendRef: gatewayv1.BackendObjectReference{
			Group: helpers.GetPointer[gatewayv1.Group](""), Kind: helpers.GetPointer[gatewayv1.Kind]("Service"),
			Name: "mirror", Port: helpers.GetPointer[gatewayv1.PortNumber](80)}}}
}

func vsBackendObj(b vsBackend) gatewayv1.BackendRef {
	return gatewayv1.BackendRef{
		BackendObjectReference: gatewayv1.BackendObjectReference{
			Group: helpers.GetPointer[gatewayv1.Group](""), Kind: helpers.GetPointer[gatewayv1.Kind]("Service"),
			Name: gatewayv1.ObjectName(b.Name), Namespace: vsNSPtr(b.NS), Port: helpers.GetPointer(gatewayv1.PortNumber(b.Port)),
		},
		Weight: helpers.GetPointer(b.Weight),
	}
}

func vsParents(ps []vsParentRef) []gatewayv1.ParentReference {
	var out []gatewayv1.ParentReference
	for _, p := range ps {
		pr := gatewayv1.ParentReference{
			Group: helpers.GetPointer[gatewayv1.Group](gatewayv1.GroupName), Kind: helpers.GetPointer[gatewayv1.Kind]("Gateway"),
			Name: gatewayv1.ObjectName(p.Name), Namespace: vsNSPtr(p.NS),
		}
		if p.Section != nil {
			pr.SectionName = helpers.GetPointer(gatewayv1.SectionName(*p.Section))
		}
		if p.Port != nil {
			pr.Port = helpers.GetPointer(gatewayv1.PortNumber(*p.Port))
		}
		out = append(out, pr)
	}
	return out
}

func vsHostnames(hs []string) []gatewayv1.Hostname {
	var out []gatewayv1.Hostname
	for _, h := range hs {
		out = append(out, gatewayv1.Hostname(h))
	}
	return out
}

func (r vsRoute) obj() client.Object {
	meta := metav1.ObjectMeta{Namespace: r.NS, Name: r.Name, CreationTimestamp: vsTime(r.TS), Generation: r.TS + 1}
	if r.GRPC {
		gr := &gatewayv1.GRPCRoute{ObjectMeta: meta, Spec: gatewayv1.GRPCRouteSpec{
			CommonRouteSpec: gatewayv1.CommonRouteSpec{ParentRefs: vsParents(r.Parents)}, Hostnames: vsHostnames(r.Hosts)}}
		for _, ru := range r.Rules {
			var rule gatewayv1.GRPCRouteRule
			for _, m := range ru.Matches {
				var gm gatewayv1.GRPCRouteMatch
				if m.Exact { // "/svc/method"
					parts := vsSplitGRPCPath(m.Path)
					t := gatewayv1.GRPCMethodMatchExact
					gm.Method = &gatewayv1.GRPCMethodMatch{Type: &t, Service: &parts[0], Method: &parts[1]}
				}
				for _, h := range m.Headers {
					t := gatewayv1.GRPCHeaderMatchExact
					gm.Headers = append(gm.Headers, gatewayv1.GRPCHeaderMatch{Type: &t, Name: gatewayv1.GRPCHeaderName(h[0]), Value: h[1]})
				}
				rule.Matches = append(rule.Matches, gm)
			}
			for _, f := range ru.Filters {
				switch f.Kind {
				case "reqhdr":
					rule.Filters = append(rule.Filters, gatewayv1.GRPCRouteFilter{Type: gatewayv1.GRPCRouteFilterRequestHeaderModifier,
						RequestHeaderModifier: &gatewayv1.HTTPHeaderFilter{Set: vsHdrs(f.Set), Add: vsHdrs(f.Add), Remove: f.Remove}})
				case "resphdr":
					rule.Filters = append(rule.Filters, gatewayv1.GRPCRouteFilter{Type: gatewayv1.GRPCRouteFilterResponseHeaderModifier,
						ResponseHeaderModifier: &gatewayv1.HTTPHeaderFilter{Set: vsHdrs(f.Set), Add: vsHdrs(f.Add), Remove: f.Remove}})
				default:
					rule.Filters = append(rule.Filters, gatewayv1.GRPCRouteFilter{Type: gatewayv1.GRPCRouteFilterRequestMirror,
						RequestMirror: &gatewayv1.HTTPRequestMirrorFilter{BackendRef: gatewayv1.BackendObjectReference{Name: "mirror", Port: helpers.GetPointer[gatewayv1.PortNumber](80)}}})
				}
			}
			for _, b := range ru.Backends {
				rule.BackendRefs = append(rule.BackendRefs, gatewayv1.GRPCBackendRef{BackendRef: vsBackendObj(b)})
			}
			gr.Spec.Rules = append(gr.Spec.Rules, rule)
		}
		return gr
	}
	hr := &gatewayv1.HTTPRoute{ObjectMeta: meta, Spec: gatewayv1.HTTPRouteSpec{
		CommonRouteSpec: gatewayv1.CommonRouteSpec{ParentRefs: vsParents(r.Parents)}, Hostnames: vsHostnames(r.Hosts)}}
	for _, ru := range r.Rules {
		var rule gatewayv1.HTTPRouteRule
		ms := ru.Matches
		if len(ms) == 0 {
			ms = []vsMatch{{Path: "/"}} // CRD default: one PathPrefix "/" match
		}
		for _, m := range ms {
			pt := gatewayv1.PathMatchPathPrefix
			if m.Exact {
				pt = gatewayv1.PathMatchExact
			}
			hm := gatewayv1.HTTPRouteMatch{Path: &gatewayv1.HTTPPathMatch{Type: &pt, Value: helpers.GetPointer(m.Path)}}
			if m.Method != nil {
				hm.Method = helpers.GetPointer(gatewayv1.HTTPMethod(*m.Method))
			}
			for _, h := range m.Headers {
				t := gatewayv1.HeaderMatchExact
				hm.Headers = append(hm.Headers, gatewayv1.HTTPHeaderMatch{Type: &t, Name: gatewayv1.HTTPHeaderName(h[0]), Value: h[1]})
			}
			for _, q := range m.Query {
				t := gatewayv1.QueryParamMatchExact
				hm.QueryParams = append(hm.QueryParams, gatewayv1.HTTPQueryParamMatch{Type: &t, Name: gatewayv1.HTTPHeaderName(q[0]), Value: q[1]})
			}
			rule.Matches = append(rule.Matches, hm)
		}
		for _, f := range ru.Filters {
			rule.Filters = append(rule.Filters, f.httpObj())
		}
		for _, b := range ru.Backends {
			rule.BackendRefs = append(rule.BackendRefs, gatewayv1.HTTPBackendRef{BackendRef: vsBackendObj(b)})
		}
		hr.Spec.Rules = append(hr.Spec.Rules, rule)
	}
	return hr
}

func vsSplitGRPCPath(p string) [2]string {
	// "/svc/method"
	rest := p[1:]
	for i := 0; i < len(rest); i++ {
		if rest[i] == '/' {
			return [2]string{rest[:i], rest[i+1:]}
		}
	}
	return [2]string{rest, ""}
}

func (s vsService) obj() client.Object {
	svc := &apiv1.Service{ObjectMeta: metav1.ObjectMeta{Namespace: s.NS, Name: s.Name, Generation: 1},
		Spec: apiv1.ServiceSpec{IPFamilies: []apiv1.IPFamily{apiv1.IPv4Protocol}}}
	for _, p := range s.Ports {
		// the pods listen elsewhere than the Service: port 80 goes to 8080 (the number of the Service's other port, when it has
		// one), any other port 1000 higher. A backendRef names the Service port, never the target port.
		tp := p + 1000
		if p == 80 {
			tp = 8080
		}
		svc.Spec.Ports = append(svc.Spec.Ports, apiv1.ServicePort{Name: "p" + strconv.Itoa(int(p)), Port: p, TargetPort: intstr.FromInt32(tp)})
	}
	return svc
}

func (s vsSecret) obj() client.Object {
	kp := vsSecretPair(s.NS, s.Name)
	sec := &apiv1.Secret{ObjectMeta: metav1.ObjectMeta{Namespace: s.NS, Name: s.Name}, Type: apiv1.SecretTypeTLS,
		Data: map[string][]byte{apiv1.TLSCertKey: kp[0], apiv1.TLSPrivateKeyKey: kp[1]}}
	if !s.OK {
		// not usable for a listener in one of two ways, fixed per Secret: the certificate does not parse, or the key pair is
		// fine and the Secret is of the wrong type
		h := 0
		for _, c := range s.NS + "/" + s.Name {
			h = (h*131 + int(c)) % 1000003
		}
		if h%2 == 0 {
			sec.Data[apiv1.TLSCertKey] = []byte("not a certificate")
		} else {
			sec.Type = apiv1.SecretTypeOpaque
		}
	}
	return sec
}

func (g vsGrant) obj() client.Object {
	rg := &v1beta1.ReferenceGrant{ObjectMeta: metav1.ObjectMeta{Namespace: g.NS, Name: g.Name}}
	for _, f := range g.From {
		rg.Spec.From = append(rg.Spec.From, v1beta1.ReferenceGrantFrom{Group: gatewayv1.Group(f.Group), Kind: gatewayv1.Kind(f.Kind), Namespace: gatewayv1.Namespace(f.NS)})
	}
	for _, t := range g.To {
		to := v1beta1.ReferenceGrantTo{Group: gatewayv1.Group(t.Group), Kind: gatewayv1.Kind(t.Kind)}
		if t.Name != nil {
			to.Name = helpers.GetPointer(gatewayv1.ObjectName(*t.Name))
		}
		rg.Spec.To = append(rg.Spec.To, to)
	}
	return rg
}

func (b vsBTP) obj() client.Object {
	p := &v1alpha3.BackendTLSPolicy{ObjectMeta: metav1.ObjectMeta{Namespace: b.NS, Name: b.Name, CreationTimestamp: vsTime(b.TS), Generation: 1},
		Spec: v1alpha3.BackendTLSPolicySpec{Validation: v1alpha3.BackendTLSPolicyValidation{Hostname: gatewayv1.PreciseHostname(b.Host)}}}
	for _, t := range b.Targets {
		p.Spec.TargetRefs = append(p.Spec.TargetRefs, v1alpha2.LocalPolicyTargetReferenceWithSectionName{
			LocalPolicyTargetReference: v1alpha2.LocalPolicyTargetReference{Group: "", Kind: "Service", Name: gatewayv1.ObjectName(t)}})
	}
	if b.CA != nil {
		p.Spec.Validation.CACertificateRefs = []gatewayv1.LocalObjectReference{{Group: "", Kind: "ConfigMap", Name: gatewayv1.ObjectName(*b.CA)}}
	}
	if b.WellKnown {
		p.Spec.Validation.WellKnownCACertificates = helpers.GetPointer(v1alpha3.WellKnownCACertificatesSystem)
	}
	if b.Full {
		p.Annotations = map[string]string{vsFullAnnotation: "true"}
		p.Status.Ancestors = vsFullAncestors()
	}
	return p
}

const vsFullAnnotation = "verif.example.com/ancestors-full"

// vsFullAncestors: sixteen ancestor statuses written by another controller (the CRD's limit).
func vsFullAncestors() []v1alpha2.PolicyAncestorStatus {
	var out []v1alpha2.PolicyAncestorStatus
	for k := 0; k < 16; k++ {
		out = append(out, v1alpha2.PolicyAncestorStatus{ControllerName: "example.com/other",
			AncestorRef: gatewayv1.ParentReference{Name: gatewayv1.ObjectName("other-gw-" + strconv.Itoa(k))},
			Conditions:  []metav1.Condition{{Type: "Accepted", Status: metav1.ConditionTrue, Reason: "Accepted", LastTransitionTime: metav1.Unix(1600000000, 0)}}})
	}
	return out
}

func (m vsConfigMap) obj() client.Object {
	cm := &apiv1.ConfigMap{ObjectMeta: metav1.ObjectMeta{Namespace: m.NS, Name: m.Name}, Data: map[string]string{}}
	if m.OK {
		cm.Data["ca.crt"] = string(vsSecretPair(m.NS, "cm-"+m.Name)[0])
	} else {
		cm.Data["other"] = "x"
	}
	return cm
}

func (n vsNamespace) obj() client.Object {
	ns := &apiv1.Namespace{ObjectMeta: metav1.ObjectMeta{Name: n.Name, Labels: map[string]string{}}}
	for _, kv := range n.Labels {
		ns.Labels[kv[0]] = kv[1]
	}
	return ns
}

// Objects returns all typed objects of the state (dependencies first: a benign order).
func (c *vsCluster) Objects() []client.Object {
	var out []client.Object
	for _, n := range c.Namespaces {
		out = append(out, n.obj())
	}
	out = append(out, c.classObjs()...)
	for _, s := range c.Secrets {
		out = append(out, s.obj())
	}
	for _, s := range c.Services {
		out = append(out, s.obj())
	}
	for _, g := range c.Grants {
		out = append(out, g.obj())
	}
	for _, m := range c.ConfigMaps {
		out = append(out, m.obj())
	}
	for _, b := range c.BTPs {
		out = append(out, b.obj())
	}
	for _, g := range c.Gateways {
		out = append(out, g.obj())
	}
	for _, r := range c.Routes {
		out = append(out, r.obj())
	}
	return out
}

// ------------------------------------------------------------------------------------------ generation

var (
	vsNSPool    = []string{"default", "team-a", "team-b"}
	vsHostPool  = []string{"example.com", "foo.example.com", "bar.example.com", "*.example.com", "*.foo.example.com", "a.foo.example.com", "other.org", "*.org"}
	vsPathPool  = []string{"/", "/a", "/a/b", "/ab", "/a/b/c", "/b", "/coffee", "/tea"}
	vsHdrNames  = []string{"X-A", "x-a", "X-B", "Version"}
	vsVals      = []string{"1", "2", "v1"}
	vsQryNames  = []string{"k", "K", "j"}
	vsMethods   = []string{"GET", "POST"}
	vsSvcPool   = []string{"svc-a", "svc-b", "svc-c"}
	vsGRPCPaths = []string{"/pkg.Svc/Get", "/pkg.Svc/Put", "/other.S/M"}
)

func vsPick(r *vu.Rng, pool []string) string { return pool[r.Intn(len(pool))] }
func vsPtr(s string) *string                 { return &s }

// vsSub draws a small sub-pool so that objects of one state compete for the same names.
func vsSub(r *vu.Rng, pool []string, n int) []string {
	idx := make([]int, len(pool))
	for i := range idx {
		idx[i] = i
	}
	r.Shuffle(len(idx), func(i, j int) { idx[i], idx[j] = idx[j], idx[i] })
	if n > len(pool) {
		n = len(pool)
	}
	out := make([]string, n)
	for i := 0; i < n; i++ {
		out[i] = pool[idx[i]]
	}
	return out
}

type vsPools struct{ hosts, paths []string }

func vsGenMatch(r *vu.Rng, grpc bool, pools vsPools) vsMatch {
	var m vsMatch
	if grpc {
		if r.Chance(2, 3) {
			m.Exact = true
			m.Path = vsPick(r, vsGRPCPaths)
		} else {
			m.Path = "/"
		}
	} else {
		m.Path = vsPick(r, pools.paths)
		m.Exact = r.Chance(1, 3)
		// an Exact match may end in a slash (a PathPrefix with a trailing slash is left out: Gateway API ignores the
		// slash there, NGF does not)
		if m.Exact && m.Path != "/" && r.Chance(1, 4) {
			m.Path += "/"
		}
		if r.Chance(1, 4) {
			m.Method = vsPtr(vsPick(r, vsMethods))
		}
		for i := r.Intn(3); i > 0 && r.Chance(1, 2); i-- {
			m.Query = append(m.Query, [2]string{vsPick(r, vsQryNames), vsPick(r, vsVals)})
		}
	}
	for i := r.Intn(3); i > 0 && r.Chance(1, 2); i-- {
		m.Headers = append(m.Headers, [2]string{vsPick(r, vsHdrNames), vsPick(r, vsVals)})
	}
	// the CRD forbids repeated header / query names (case-insensitive for headers)
	m.Headers = vsDedupPairs(m.Headers, true)
	m.Query = vsDedupPairs(m.Query, false)
	return m
}

func vsDedupPairs(ps [][2]string, fold bool) [][2]string {
	seen := map[string]bool{}
	var out [][2]string
	for _, p := range ps {
		k := p[0]
		if fold {
			k = vsLower(k)
		}
		if !seen[k] {
			seen[k] = true
			out = append(out, p)
		}
	}
	return out
}

func vsLower(s string) string {
	b := []byte(s)
	for i := range b {
		if b[i] >= 'A' && b[i] <= 'Z' {
			b[i] += 32
		}
	}
	return string(b)
}

func vsGenBackend(r *vu.Rng, routeNS string) vsBackend {
	b := vsBackend{Name: vsPick(r, vsSvcPool[:2+r.Intn(2)]), Port: 80, Weight: 1}
	if r.Chance(1, 5) {
		b.Port = 8080
	}
	if r.Chance(1, 8) {
		b.Name = "missing"
	}
	switch r.Intn(7) {
	case 0:
		b.Weight = 0
	case 1:
		b.Weight = int32(r.Range(2, 9))
	case 2:
		b.Weight = int32(r.Range(10, 1000))
	case 3:
		// the API admits weights up to 1,000,000: products with the percent scale leave 32 bits
		b.Weight = []int32{214748, 214749, 250000, 300000, 700000, 1000000}[r.Intn(6)]
	}
	if r.Chance(1, 4) {
		b.NS = vsPtr(vsPick(r, vsNSPool))
	}
	return b
}

func vsGenFilter(r *vu.Rng, grpc bool, path string) vsFilter {
	k := r.Intn(10)
	if grpc {
		if k < 5 {
			return vsFilter{Kind: "reqhdr", Set: [][2]string{{"X-Set", "s"}}}
		}
		return vsFilter{Kind: "resphdr", Add: [][2]string{{"X-Add", "a"}}}
	}
	switch {
	case k < 3:
		f := vsFilter{Kind: "redirect"}
		if r.Bool() {
			f.Scheme = vsPtr([]string{"http", "https"}[r.Intn(2)])
		}
		if r.Bool() {
			f.Host = vsPtr("redir.example.org")
		}
		if r.Chance(1, 3) {
			p := int32([]int{80, 443, 8080}[r.Intn(3)])
			f.Port = &p
		}
		if r.Chance(1, 3) {
			c := []int{301, 302}[r.Intn(2)]
			f.Code = &c
		}
		if r.Chance(1, 3) {
			if r.Bool() {
				f.Path = &vsPathMod{Full: true, Val: "/moved"}
			} else {
				f.Path = &vsPathMod{Full: false, Val: []string{"/new", "/", "/new/"}[r.Intn(3)]}
			}
		}
		return f
	case k < 5:
		f := vsFilter{Kind: "rewrite"}
		if r.Bool() {
			f.Host = vsPtr("rw.example.org")
		}
		if r.Bool() {
			if r.Bool() {
				f.Path = &vsPathMod{Full: true, Val: "/full"}
			} else {
				f.Path = &vsPathMod{Full: false, Val: []string{"/new", "/", "/new/"}[r.Intn(3)]}
			}
		}
		return f
	case k < 7:
		return vsFilter{Kind: "reqhdr", Set: [][2]string{{"X-Set", "s"}}, Add: [][2]string{{"X-Add", "a"}}, Remove: []string{"X-Rm"}}
	case k < 9:
		return vsFilter{Kind: "resphdr", Set: [][2]string{{"X-RSet", "s"}}, Remove: []string{"X-RRm"}}
	}
	return vsFilter{Kind: "unsupported"}
}

// vsGen draws a cluster state; size (0..) scales the number of objects.
func vsGen(r *vu.Rng, size int) *vsCluster {
	c := &vsCluster{}
	pools := vsPools{hosts: vsSub(r, vsHostPool, 2+r.Intn(3)), paths: vsSub(r, vsPathPool, 2+r.Intn(3))}
	for _, n := range vsNSPool {
		ns := vsNamespace{Name: n}
		if n != "default" && r.Bool() {
			ns.Labels = append(ns.Labels, [2]string{"team", "x"})
		}
		if r.Chance(1, 3) {
			ns.Labels = append(ns.Labels, [2]string{"env", "prod"})
		}
		c.Namespaces = append(c.Namespaces, ns)
	}
	// classes
	switch r.Intn(12) {
	case 0: // our class name, foreign controller
		c.Classes = append(c.Classes, vsClass{Name: vpClassName, TS: 1, Controller: "example.com/other"})
	case 1: // no class with our name
		c.Classes = append(c.Classes, vsClass{Name: "other", TS: 1, Controller: vpCtlrName})
	default:
		c.Classes = append(c.Classes, vsClass{Name: vpClassName, TS: 1, Controller: vpCtlrName})
		if r.Chance(1, 4) {
			c.Classes = append(c.Classes, vsClass{Name: "foreign", TS: 0, Controller: "example.com/other"})
		}
	}
	// services
	for _, ns := range vsNSPool {
		for _, n := range vsSvcPool {
			if r.Chance(4, 5) {
				s := vsService{NS: ns, Name: n, Ports: []int32{80}}
				if r.Chance(1, 3) {
					s.Ports = append(s.Ports, 8080)
				}
				c.Services = append(c.Services, s)
			}
		}
	}
	// secrets
	for _, ns := range vsNSPool[:2] {
		for _, n := range []string{"cert-a", "cert-b"} {
			if r.Chance(5, 6) {
				c.Secrets = append(c.Secrets, vsSecret{NS: ns, Name: n, OK: r.Chance(7, 8)})
			}
		}
	}
	// grants
	ng := r.Intn(3)
	for i := 0; i < ng; i++ {
		g := vsGrant{NS: vsPick(r, vsNSPool), Name: "grant" + strconv.Itoa(i)}
		g.From = append(g.From, vsGrantFrom{Group: "gateway.networking.k8s.io",
			Kind: []string{"HTTPRoute", "GRPCRoute", "Gateway", "TLSRoute"}[r.Intn(4)], NS: vsPick(r, vsNSPool)})
		to := vsGrantTo{Group: []string{"", "core", ""}[r.Intn(3)], Kind: []string{"Service", "Secret"}[r.Intn(2)]}
		if r.Chance(1, 3) {
			to.Name = vsPtr(vsPick(r, append(append([]string{}, vsSvcPool...), "cert-a", "cert-b")))
		}
		g.To = append(g.To, to)
		if r.Chance(1, 3) {
			g.From = append(g.From, vsGrantFrom{Group: "gateway.networking.k8s.io", Kind: "HTTPRoute", NS: vsPick(r, vsNSPool)})
		}
		c.Grants = append(c.Grants, g)
	}
	// backend TLS policies (one state in three)
	if r.Chance(1, 3) {
		for _, ns := range vsNSPool[:2] {
			c.ConfigMaps = append(c.ConfigMaps, vsConfigMap{NS: ns, Name: "ca", OK: r.Chance(5, 6)})
		}
		nb := 1 + r.Intn(3)
		for i := 0; i < nb; i++ {
			b := vsBTP{NS: vsPick(r, vsNSPool[:2]), Name: "btp" + strconv.Itoa(i), TS: int64(r.Intn(3)),
				Targets: []string{vsPick(r, vsSvcPool)}, Host: []string{"backend.example.com", "other.example.com"}[r.Intn(2)]}
			if r.Chance(1, 4) {
				b.Targets = append(b.Targets, vsPick(r, vsSvcPool))
			}
			switch r.Intn(5) {
			case 0:
				b.WellKnown = true
			case 1:
				b.CA = vsPtr("missing-ca")
			default:
				b.CA = vsPtr("ca")
			}
			if r.Chance(1, 6) {
				b.Full = true
			}
			c.BTPs = append(c.BTPs, b)
		}
	}
	// gateways
	ngw := 1
	if r.Chance(1, 4) {
		ngw = 2
	}
	gwNames := []string{"gw", "gw2"}
	for i := 0; i < ngw; i++ {
		g := vsGateway{NS: []string{"default", "team-a"}[r.Intn(2)], Name: gwNames[i], TS: int64(r.Intn(3)), Class: vpClassName}
		if i == 1 && r.Chance(1, 3) {
			g.Class = "foreign"
		}
		nl := 1 + r.Intn(2+size/2)
		if nl > 4 {
			nl = 4
		}
		used := map[string]bool{}
		for j := 0; j < nl; j++ {
			l := vsListener{Name: "l" + strconv.Itoa(j), From: []string{"Same", "All", "All", "Selector"}[r.Intn(4)]}
			if r.Chance(2, 3) {
				l.Proto = "HTTP"
				l.Port = []int32{80, 8080, 80, 443}[r.Intn(4)]
			} else {
				l.Proto = "HTTPS"
				l.Port = []int32{443, 8443, 443, 80}[r.Intn(4)]
				cr := &vsCertRef{Name: []string{"cert-a", "cert-b", "cert-missing"}[r.Intn(3)]}
				if r.Chance(1, 4) {
					cr.NS = vsPtr(vsPick(r, vsNSPool[:2]))
				}
				l.Cert = cr
			}
			if r.Chance(1, 12) {
				l.Port = 9113 // protected port
			}
			if r.Chance(2, 3) {
				l.Host = vsPtr(vsPick(r, pools.hosts))
			}
			if l.From == "Selector" {
				l.Selector = [][2]string{{"team", "x"}}
			}
			if r.Chance(1, 8) {
				l.HasKinds = true
				l.Kinds = [][]string{{"HTTPRoute"}, {"GRPCRoute"}, {"HTTPRoute", "GRPCRoute"}, {"TCPRoute"}}[r.Intn(4)]
			}
			h := ""
			if l.Host != nil {
				h = *l.Host
			}
			key := l.Proto + strconv.Itoa(int(l.Port)) + h
			if used[key] { // the CRD requires (port, protocol, hostname) to be unique
				continue
			}
			used[key] = true
			g.Listeners = append(g.Listeners, l)
		}
		c.Gateways = append(c.Gateways, g)
	}
	// routes
	nr := 1 + r.Intn(2+size)
	if nr > 6 {
		nr = 6
	}
	for i := 0; i < nr; i++ {
		rt := vsRoute{NS: vsPick(r, vsNSPool), Name: "r" + strconv.Itoa(i), TS: int64(r.Intn(4)), GRPC: r.Chance(1, 5)}
		if r.Bool() {
			rt.NS = c.Gateways[0].NS
		}
		np := 1
		if r.Chance(1, 5) {
			np = 2
		}
		seenSec := map[string]bool{}
		for j := 0; j < np; j++ {
			gw := c.Gateways[r.Intn(len(c.Gateways))]
			p := vsParentRef{Name: gw.Name}
			if gw.NS != rt.NS || r.Chance(1, 3) {
				p.NS = vsPtr(gw.NS)
			}
			if gw.NS != rt.NS && r.Chance(1, 4) {
				// left out: the parentRef then means a Gateway of that name in the Route's own namespace, not this one
				p.NS = nil
			}
			if r.Chance(1, 10) {
				p.NS = vsPtr(vsPick(r, vsNSPool)) // may point to a non-existing gateway
			}
			if r.Chance(1, 3) && len(gw.Listeners) > 0 {
				p.Section = vsPtr(gw.Listeners[r.Intn(len(gw.Listeners))].Name)
			} else if r.Chance(1, 12) {
				p.Section = vsPtr("nosuch")
			}
			if r.Chance(1, 15) {
				pp := int32(80)
				p.Port = &pp
			}
			sec := ""
			if p.Section != nil {
				sec = *p.Section
			}
			ns := rt.NS
			if p.NS != nil {
				ns = *p.NS
			}
			k := ns + "/" + p.Name + "/" + sec
			if seenSec[k] {
				continue
			}
			seenSec[k] = true
			rt.Parents = append(rt.Parents, p)
		}
		nh := r.Intn(3)
		seenH := map[string]bool{}
		for j := 0; j < nh; j++ {
			h := vsPick(r, pools.hosts)
			if !seenH[h] {
				seenH[h] = true
				rt.Hosts = append(rt.Hosts, h)
			}
		}
		nru := 1 + r.Intn(2+size/2)
		if nru > 3 {
			nru = 3
		}
		for j := 0; j < nru; j++ {
			var ru vsRule
			nm := r.Intn(3)
			if rt.GRPC && nm == 0 && r.Bool() {
				nm = 1
			}
			for k := 0; k < nm; k++ {
				ru.Matches = append(ru.Matches, vsGenMatch(r, rt.GRPC, pools))
			}
			if r.Chance(1, 3) {
				p := "/"
				if len(ru.Matches) > 0 {
					p = ru.Matches[0].Path
				}
				f := vsGenFilter(r, rt.GRPC, p)
				// the CRD forbids ReplacePrefixMatch unless every match of the rule is a PathPrefix match
				if f.Path != nil && !f.Path.Full {
					ok := len(ru.Matches) > 0
					for _, m := range ru.Matches {
						if m.Exact {
							ok = false
						}
					}
					if !ok {
						f.Path = nil
					}
				}
				ru.Filters = append(ru.Filters, f)
			}
			isRedirect := len(ru.Filters) > 0 && ru.Filters[0].Kind == "redirect"
			if !isRedirect {
				nb := 1 + r.Intn(3)
				if r.Chance(1, 2) {
					nb = 1
				}
				for k := 0; k < nb; k++ {
					ru.Backends = append(ru.Backends, vsGenBackend(r, rt.NS))
				}
			}
			rt.Rules = append(rt.Rules, ru)
		}
		c.Routes = append(c.Routes, rt)
	}
	// the oldest of two policies for one Service is the one NGF must ignore (its ancestor list is full); the Service is
	// one that a route's backend really references
	if len(c.BTPs) >= 2 && r.Chance(1, 2) {
		for _, rt := range c.Routes {
			if len(rt.Rules) == 0 || len(rt.Rules[0].Backends) == 0 {
				continue
			}
			be := rt.Rules[0].Backends[0]
			ns := rt.NS
			if be.NS != nil {
				ns = *be.NS
			}
			if ns != vsNSPool[0] && ns != vsNSPool[1] {
				continue
			}
			c.BTPs[0].NS, c.BTPs[1].NS = ns, ns
			c.BTPs[0].Targets, c.BTPs[1].Targets = []string{be.Name}, []string{be.Name}
			c.BTPs[0].TS, c.BTPs[1].TS = 0, 1
			c.BTPs[0].Full, c.BTPs[1].Full = true, false
			break
		}
	}
	// fat routes (one state in eight): one Route with 13..16 rules, or two Routes of the same parents and hostnames
	// with 7..8 rules each, every rule one match on ONE path told apart only by a header (12 name/value
	// combinations, so rules tie or coincide: Route age/name and then the order written in the Route decide)
	if size >= 1 && r.Chance(1, 8) {
		path := vsPick(r, pools.paths)
		fat := func(rt *vsRoute, n int) {
			rt.Rules = nil
			for j := 0; j < n; j++ {
				m := vsMatch{Path: path, Headers: [][2]string{{vsPick(r, vsHdrNames), vsPick(r, vsVals)}}}
				b := vsBackend{Name: vsPick(r, vsSvcPool), Port: []int32{80, 8080}[r.Intn(2)], Weight: 1}
				rt.Rules = append(rt.Rules, vsRule{Matches: []vsMatch{m}, Backends: []vsBackend{b}})
			}
		}
		var idx []int
		for i := range c.Routes {
			if !c.Routes[i].GRPC {
				idx = append(idx, i)
			}
		}
		if len(idx) >= 2 && r.Chance(2, 3) {
			a, b := &c.Routes[idx[0]], &c.Routes[idx[1]]
			b.NS, b.Hosts = a.NS, append([]string(nil), a.Hosts...)
			b.Parents = append([]vsParentRef(nil), a.Parents...)
			fat(a, 7+r.Intn(2))
			fat(b, 7+r.Intn(2))
		} else if len(idx) >= 1 {
			fat(&c.Routes[idx[r.Intn(len(idx))]], 13+r.Intn(4))
		}
	}
	if r.Chance(2, 3) {
		vsCohere(r, c)
	}
	// one rule, two backends in two namespaces, each under a BackendTLSPolicy of its own namespace that names the same hostname and a
	// ConfigMap called "ca": two different CA bundles behind equal-looking policies
	if len(c.Routes) > 0 && !c.Routes[0].GRPC && len(c.Routes[0].Rules) > 0 && r.Chance(1, 8) {
		rt := &c.Routes[0]
		other := "team-a"
		if rt.NS == other {
			other = "default"
		}
		if rt.NS == "default" || rt.NS == "team-a" {
			ensureSvc := func(ns, name string) {
				for _, sv := range c.Services {
					if sv.NS == ns && sv.Name == name {
						return
					}
				}
				c.Services = append(c.Services, vsService{NS: ns, Name: name, Ports: []int32{80}})
			}
			ensureSvc(rt.NS, "svc-a")
			ensureSvc(other, "svc-a")
			w0 := int32([]int{0, 1, 3}[r.Intn(3)])
			rt.Rules[0].Filters = nil
			rt.Rules[0].Backends = []vsBackend{{NS: vsPtr(other), Name: "svc-a", Port: 80, Weight: w0}, {Name: "svc-a", Port: 80, Weight: 1}}
			c.Grants = append(c.Grants, vsGrant{NS: other, Name: "grant-twoca", From: []vsGrantFrom{{Group: "gateway.networking.k8s.io", Kind: "HTTPRoute", NS: rt.NS}},
				To: []vsGrantTo{{Group: "", Kind: "Service"}}})
			var cms []vsConfigMap
			for _, m := range c.ConfigMaps {
				if m.Name != "ca" {
					cms = append(cms, m)
				}
			}
			c.ConfigMaps = append(cms, vsConfigMap{NS: rt.NS, Name: "ca", OK: true}, vsConfigMap{NS: other, Name: "ca", OK: true})
			var bt []vsBTP
			for _, b := range c.BTPs {
				keep := true
				for _, t := range b.Targets {
					if t == "svc-a" {
						keep = false
					}
				}
				if keep {
					bt = append(bt, b)
				}
			}
			c.BTPs = append(bt, vsBTP{NS: rt.NS, Name: "btp-twoca-1", TS: 1, Targets: []string{"svc-a"}, Host: "backend.example.com", CA: vsPtr("ca")},
				vsBTP{NS: other, Name: "btp-twoca-2", TS: 1, Targets: []string{"svc-a"}, Host: "backend.example.com", CA: vsPtr("ca")})
		}
	}
	// one rule, two Services of one namespace, each under its own BackendTLSPolicy; the two policies say the same (system CAs, one
	// hostname): the backends agree and the rule must be served
	if len(c.Routes) > 0 && !c.Routes[0].GRPC && len(c.Routes[0].Rules) > 0 && r.Chance(1, 10) {
		rt := &c.Routes[0]
		has := func(name string) bool {
			for _, sv := range c.Services {
				if sv.NS == rt.NS && sv.Name == name {
					return true
				}
			}
			return false
		}
		for _, name := range []string{"svc-a", "svc-b"} {
			if !has(name) {
				c.Services = append(c.Services, vsService{NS: rt.NS, Name: name, Ports: []int32{80}})
			}
		}
		rt.Rules[0].Filters = nil
		rt.Rules[0].Matches = []vsMatch{{Path: "/wk"}}
		rt.Rules[0].Backends = []vsBackend{{Name: "svc-a", Port: 80, Weight: 1}, {Name: "svc-b", Port: 80, Weight: int32(1 + r.Intn(3))}}
		var bt []vsBTP
		for _, b := range c.BTPs {
			keep := true
			for _, t := range b.Targets {
				if b.NS == rt.NS && (t == "svc-a" || t == "svc-b") {
					keep = false
				}
			}
			if keep {
				bt = append(bt, b)
			}
		}
		c.BTPs = append(bt, vsBTP{NS: rt.NS, Name: "btp-wk-1", TS: 1, Targets: []string{"svc-a"}, Host: "backend.example.com", WellKnown: true},
			vsBTP{NS: rt.NS, Name: "btp-wk-2", TS: 2, Targets: []string{"svc-b"}, Host: "backend.example.com", WellKnown: true})
	}
	// two HTTPS listeners whose certificates live in one foreign namespace, of which a ReferenceGrant names only the first
	if len(c.Gateways) > 0 && c.Gateways[0].Class == vpClassName && r.Chance(1, 8) {
		g := &c.Gateways[0]
		x := "team-b"
		if g.NS == x {
			x = "team-a"
		}
		g.Listeners = append(g.Listeners,
			vsListener{Name: "l-xa", Host: vsPtr("xa.example.com"), Port: 8445, Proto: "HTTPS", Cert: &vsCertRef{NS: vsPtr(x), Name: "cert-xa"}, From: "All"},
			vsListener{Name: "l-xb", Host: vsPtr("xb.example.com"), Port: 8445, Proto: "HTTPS", Cert: &vsCertRef{NS: vsPtr(x), Name: "cert-xb"}, From: "All"})
		c.Secrets = append(c.Secrets, vsSecret{NS: x, Name: "cert-xa", OK: true}, vsSecret{NS: x, Name: "cert-xb", OK: true})
		c.Grants = append(c.Grants, vsGrant{NS: x, Name: "grant-xa", From: []vsGrantFrom{{Group: "gateway.networking.k8s.io", Kind: "Gateway", NS: g.NS}},
			To: []vsGrantTo{{Group: "", Kind: "Secret", Name: vsPtr("cert-xa")}}})
		if r.Bool() {
			c.Routes = append(c.Routes, vsRoute{NS: g.NS, Name: "r-x", TS: 2, Parents: []vsParentRef{{Name: g.Name}}, Hosts: []string{"xa.example.com", "xb.example.com"},
				Rules: []vsRule{{Matches: []vsMatch{{Path: "/x"}}, Backends: []vsBackend{{Name: "svc-a", Port: 80, Weight: 1}}}}})
		}
	}
	return c
}

// vsGenRequests draws requests over what the state mentions plus near misses.
func vsGenRequests(r *vu.Rng, c *vsCluster, n int) []vsRequest {
	ports := map[int32]string{}
	var lhosts []string // hostnames of the listeners: a Route without hostnames is served under these
	for _, g := range c.Gateways {
		for _, l := range g.Listeners {
			ports[l.Port] = l.Proto
			if l.Host != nil && *l.Host != "" {
				lhosts = append(lhosts, *l.Host)
			}
		}
	}
	var plist []int32
	for p := range ports {
		plist = append(plist, p)
	}
	sort.Slice(plist, func(i, j int) bool { return plist[i] < plist[j] })
	if len(plist) == 0 {
		plist = []int32{80}
		ports[80] = "HTTP"
	}
	hostReq := []string{"example.com", "foo.example.com", "bar.example.com", "x.example.com", "a.foo.example.com", "b.foo.example.com",
		"other.org", "y.org", "nomatch.io", "fooexample.com", "xexample.com"}
	pathReq := []string{"/", "/a", "/a/", "/a/b", "/a/b/", "/a/b/c", "/a/b/c/d", "/ab", "/abc", "/a/x", "/b", "/b/z", "/coffee", "/coffee/latte",
		"/coffeex", "/tea", "/A", "/zzz", "/pkg.Svc/Get", "/pkg.Svc/Put", "/pkg.Svc/Other", "/other.S/M"}
	// every (route, match) of the state, to aim requests at
	type aim struct {
		hosts []string
		m     vsMatch
	}
	var aims []aim
	for _, rt := range c.Routes {
		for _, ru := range rt.Rules {
			ms := ru.Matches
			if len(ms) == 0 {
				ms = []vsMatch{{Path: "/"}}
			}
			for _, m := range ms {
				aims = append(aims, aim{rt.Hosts, m})
			}
		}
	}
	concrete := func(h string) string {
		if len(h) > 2 && h[:2] == "*." {
			return []string{"x.", "a.foo.", "b."}[r.Intn(3)] + h[2:]
		}
		return h
	}
	var out []vsRequest
	for i := 0; i < n; i++ {
		p := plist[r.Intn(len(plist))]
		q := vsRequest{Port: p, Host: vsPick(r, hostReq), Path: vsPick(r, pathReq), Method: vsPick(r, []string{"GET", "POST", "PUT"})}
		directed := len(aims) > 0 && r.Chance(2, 3)
		if directed {
			// satisfy one match (and often a second one on top of it), then perturb
			a := aims[r.Intn(len(aims))]
			if len(a.hosts) > 0 && r.Chance(3, 4) {
				q.Host = concrete(a.hosts[r.Intn(len(a.hosts))])
			} else if len(a.hosts) == 0 && len(lhosts) > 0 && r.Chance(3, 4) {
				q.Host = concrete(lhosts[r.Intn(len(lhosts))])
			}
			q.Path = a.m.Path
			if !a.m.Exact && r.Chance(1, 3) {
				if q.Path == "/" {
					q.Path = "/zzz"
				} else {
					q.Path += []string{"/x", "/", "x"}[r.Intn(3)]
				}
			}
			if a.m.Method != nil && r.Chance(4, 5) {
				q.Method = *a.m.Method
			}
			q.Headers = append(q.Headers, a.m.Headers...)
			q.Query = append(q.Query, a.m.Query...)
			if r.Bool() {
				b := aims[r.Intn(len(aims))]
				q.Headers = append(q.Headers, b.m.Headers...)
				q.Query = append(q.Query, b.m.Query...)
				if b.m.Method != nil && a.m.Method == nil {
					q.Method = *b.m.Method
				}
			}
			if len(q.Headers) > 0 && r.Chance(1, 5) {
				k := r.Intn(len(q.Headers))
				q.Headers = append(append([][2]string{}, q.Headers[:k]...), q.Headers[k+1:]...)
			}
			if len(q.Headers) > 0 && r.Chance(1, 6) {
				k := r.Intn(len(q.Headers))
				hh := append([][2]string{}, q.Headers...)
				hh[k][1] = hh[k][1] + "," + vsPick(r, vsVals)
				q.Headers = hh
			}
			if len(q.Query) > 0 && r.Chance(1, 5) {
				k := r.Intn(len(q.Query))
				q.Query = append(append([][2]string{}, q.Query[:k]...), q.Query[k+1:]...)
			}
		}
		// which protocol is valid on that port is decided by the controller; try the declared one mostly
		tls := ports[p] == "HTTPS"
		if r.Chance(1, 10) {
			tls = !tls
		}
		q.TLS = tls
		if tls {
			if r.Chance(9, 10) {
				q.SNI = vsPtr(q.Host)
				if r.Chance(1, 8) {
					q.SNI = vsPtr(vsPick(r, hostReq))
				}
			}
		}
		for k := r.Intn(3); k > 0 && !directed; k-- {
			v := vsPick(r, vsVals)
			if r.Chance(1, 4) {
				v = vsPick(r, vsVals) + "," + vsPick(r, vsVals)
			}
			q.Headers = append(q.Headers, [2]string{vsPick(r, []string{"X-A", "x-a", "X-B", "x-b", "Version", "X-C"}), v})
		}
		q.Headers = vsDedupPairs(q.Headers, true)
		for k := r.Intn(3); k > 0 && !directed; k-- {
			q.Query = append(q.Query, [2]string{vsPick(r, []string{"k", "K", "j", "z"}), vsPick(r, vsVals)})
		}
		out = append(out, q)
	}
	return out
}

// vsCohere repairs most of the reasons for which a drawn state attaches nothing (two states in three go through
// it, so that the bulk of the cases exercises servers, locations and upstreams and not only rejections): the class
// is ours, certificates exist, ports fit protocols, parentRefs point at existing Gateways and listeners.
func vsCohere(r *vu.Rng, c *vsCluster) {
	if len(c.Classes) > 0 && (c.Classes[0].Name != vpClassName || c.Classes[0].Controller != vpCtlrName) {
		c.Classes[0] = vsClass{Name: vpClassName, TS: 1, Controller: vpCtlrName}
	}
	for gi := range c.Gateways {
		g := &c.Gateways[gi]
		used := map[string]bool{}
		var ls []vsListener
		for _, l := range g.Listeners {
			if l.Port == 9113 {
				l.Port = 8081
			}
			if l.Proto == "HTTP" && l.Port == 443 {
				l.Port = 80
			}
			if l.Proto == "HTTPS" && l.Port == 80 {
				l.Port = 443
			}
			if l.Cert != nil {
				l.Cert = &vsCertRef{Name: []string{"cert-a", "cert-b"}[r.Intn(2)]}
				found := false
				for si := range c.Secrets {
					if c.Secrets[si].NS == g.NS && c.Secrets[si].Name == l.Cert.Name {
						c.Secrets[si].OK = true
						found = true
					}
				}
				if !found {
					c.Secrets = append(c.Secrets, vsSecret{NS: g.NS, Name: l.Cert.Name, OK: true})
				}
			}
			if l.From != "All" && r.Chance(2, 3) {
				l.From = "All"
				l.Selector = nil
			}
			if l.HasKinds && r.Chance(3, 4) {
				l.HasKinds = false
				l.Kinds = nil
			}
			h := ""
			if l.Host != nil {
				h = *l.Host
			}
			key := l.Proto + strconv.Itoa(int(l.Port)) + h
			if used[key] {
				continue
			}
			used[key] = true
			ls = append(ls, l)
		}
		g.Listeners = ls
	}
	for ri := range c.Routes {
		rt := &c.Routes[ri]
		seen := map[string]bool{}
		var ps []vsParentRef
		for _, p := range rt.Parents {
			var gw *vsGateway
			for gi := range c.Gateways {
				if c.Gateways[gi].Name == p.Name {
					gw = &c.Gateways[gi]
				}
			}
			if gw == nil {
				continue
			}
			// (a parentRef of a Route in another namespace that leaves the namespace out mostly stays as it is: it does not mean
			// this Gateway)
			if p.NS != nil || (gw.NS != rt.NS && !r.Chance(2, 3)) {
				p.NS = vsPtr(gw.NS)
			}
			if p.Section != nil {
				ok := false
				for _, l := range gw.Listeners {
					if l.Name == *p.Section {
						ok = true
					}
				}
				if !ok {
					p.Section = nil
				}
			}
			p.Port = nil
			sec := ""
			if p.Section != nil {
				sec = *p.Section
			}
			k := gw.NS + "/" + p.Name + "/" + sec
			if seen[k] {
				continue
			}
			seen[k] = true
			ps = append(ps, p)
		}
		if len(ps) > 0 {
			rt.Parents = ps
		}
		if r.Chance(1, 2) {
			rt.Hosts = nil
		}
	}
}
