(* C20 — the lemmas the property theorems are stated from, and for each theorem an Example showing
   that its hypotheses are met by a concrete, non-trivial input (and what happens without them). *)
From Coq Require Import String Ascii NArith ZArith Bool Arith List Lia.
From NGF Require Export C20.Model C20.Spec C20.ProofsSafe C20.ProofsEndpoint C20.ProofsLex C20.ProofsDoc C20.ProofsV6 C20.ProofsStatic.
Import ListNotations.

(* ------------------------------------------------------------------ documented => accepted, in the readable form *)

Lemma doc_plain_intro : forall h n, (subdomain_ok h = true \/ ipv4_ok h = true) -> (1 <= n <= 65535)%N ->
  doc_endpoint_plain (h ++ c_colon :: dec n) = true.
Proof.
  intros h n Hh Hn. assert (Hp := dec_port_ok n Hn). destruct (port_ok_plain _ Hp) as (P1 & _).
  unfold doc_endpoint_plain. rewrite (split_last_app _ _ _ P1), Hp. simpl.
  destruct Hh as [Hh|Hh]; rewrite Hh; [reflexivity|apply orb_true_r].
Qed.

Lemma documented_endpoint_accepted : forall h n,
  (subdomain_ok h = true \/ ipv4_ok h = true) -> (1 <= n <= 65535)%N ->
  validate_endpoint repaired (h ++ c_colon :: dec n) = true /\
  validate_endpoint_optional_port repaired (h ++ c_colon :: dec n) = true.
Proof.
  intros h n Hh Hn. assert (H := doc_plain_intro h n Hh Hn).
  split; [exact (doc_endpoint_plain_accepted _ H)|exact (doc_endpoint_plain_accepted_opt _ H)].
Qed.

Lemma doc_v6_intro : forall h n, ipv6_ok h = true -> (1 <= n <= 65535)%N ->
  doc_endpoint_v6 (c_lbr :: h ++ c_rbr :: c_colon :: dec n) = true.
Proof.
  intros h n Hh Hn. assert (Hp := dec_port_ok n Hn). destruct (port_ok_plain _ Hp) as (P1 & _).
  unfold doc_endpoint_v6.
  assert (E0 : c_lbr :: h ++ c_rbr :: c_colon :: dec n = (c_lbr :: h ++ [c_rbr]) ++ c_colon :: dec n).
  { simpl. rewrite <- app_assoc. reflexivity. }
  rewrite E0, (split_last_app _ _ _ P1), Hp. cbn [andb]. change (Ascii.eqb c_lbr c_lbr) with true. cbn [andb].
  assert (E1 : is_nil (h ++ [c_rbr]) = false) by (destruct h; reflexivity). rewrite E1. cbn [negb andb].
  rewrite last_app_one. change (Ascii.eqb c_rbr c_rbr) with true. cbn [andb].
  rewrite List.removelast_last. exact Hh.
Qed.

Lemma documented_v6_endpoint_accepted : forall h n, ipv6_ok h = true -> (1 <= n <= 65535)%N ->
  validate_endpoint repaired (c_lbr :: h ++ c_rbr :: c_colon :: dec n) = true /\
  validate_endpoint_optional_port repaired (c_lbr :: h ++ c_rbr :: c_colon :: dec n) = true.
Proof. intros h n Hh Hn. exact (doc_endpoint_v6_accepted _ (doc_v6_intro h n Hh Hn)). Qed.

Lemma doc_endpoint_accepted : forall s, doc_endpoint s = true ->
  validate_endpoint repaired s = true /\ validate_endpoint_optional_port repaired s = true.
Proof.
  intros s H. unfold doc_endpoint in H. apply orb_true_iff in H. destruct H as [H|H].
  - split; [exact (doc_endpoint_plain_accepted _ H)|exact (doc_endpoint_plain_accepted_opt _ H)].
  - exact (doc_endpoint_v6_accepted _ H).
Qed.

Lemma ip_ok_validate : forall s, ip_ok s = true -> validate_ip s = true.
Proof.
  intros s H. unfold ip_ok in H. apply orb_true_iff in H. destruct H as [H|H];
    [exact (ipv4_ok_validate _ H)|exact (ipv6_ok_validate _ H)].
Qed.

Lemma resource_name_exact : forall s, validate_resource_name s = subdomain_ok s.
Proof.
  intro s. unfold validate_resource_name. destruct s as [|c r]; [reflexivity|]. simpl is_nil. cbv iota.
  apply subdomain_model_is_spec.
Qed.

Lemma namespace_name_exact : forall s, validate_namespace_name s = namespace_ok s.
Proof. intro s. apply label_model_is_spec. Qed.

Lemma namespaced_name_exact : forall s, parse_namespaced_resource_name s = doc_nsname s.
Proof.
  intro s. unfold parse_namespaced_resource_name, doc_nsname.
  destruct s as [|c r]; [reflexivity|]. simpl is_nil. cbv iota.
  destruct (split_on c_slash (c :: r)) as [|x [|y [|z t]]]; try reflexivity.
  rewrite namespace_name_exact, resource_name_exact.
  destruct (namespace_ok x); destruct (subdomain_ok y); reflexivity.
Qed.

Lemma mgmt_conf_tokens : forall v e r skip ca client,
  (e = [] \/ validate_endpoint_optional_port v e = true) ->
  (r = [] \/ validate_endpoint_optional_port v r = true) ->
  lex (render_mgmt {| m_endpoint := e; m_resolver := r; m_skip_verify := skip; m_ca := ca; m_client := client |}) =
  Some (mgmt_tokens e r skip ca client).
Proof.
  intros v e r skip ca client He Hr.
  apply (mgmt_lex {| m_endpoint := e; m_resolver := r; m_skip_verify := skip; m_ca := ca; m_client := client |}); simpl.
  - destruct He as [->|He]; [left; reflexivity|right].
    exact (endpoint_sound_safe _ _ (validate_endpoint_optional_port_sound _ _ He)).
  - destruct Hr as [->|Hr]; [left; reflexivity|right].
    exact (endpoint_sound_safe _ _ (validate_endpoint_optional_port_sound _ _ Hr)).
Qed.

(* ------------------------------------------------------------------ D23 on the tree as found *)

Lemma D23_witness :
  doc_endpoint (lit "example.com:32768") = true /\
  validate_endpoint as_found (lit "example.com:32768") = false /\
  validate_endpoint_optional_port as_found (lit "example.com:32768") = false /\
  validate_endpoint repaired (lit "example.com:32768") = true.
Proof. vm_compute. repeat split; reflexivity. Qed.

(* ------------------------------------------------------------------ non-vacuity *)

Example ex_documented_hosts :
  subdomain_ok (lit "usage.example-1.com") = true /\ ipv4_ok (lit "10.0.255.1") = true /\
  dec 65535 = lit "65535" /\
  validate_endpoint repaired (lit "usage.example-1.com" ++ c_colon :: dec 65535) = true /\
  validate_endpoint as_found (lit "usage.example-1.com" ++ c_colon :: dec 65535) = false /\
  validate_endpoint repaired (lit "10.0.255.1:1") = true /\
  validate_endpoint repaired (lit "10.0.255.1:0") = false /\
  validate_endpoint repaired (lit "10.0.255.1:65536") = false.
Proof. vm_compute. repeat split; reflexivity. Qed.

(* IPv6 text forms: what the grammar admits and refuses, and the model of net.ParseIP with it *)
Example ex_ipv6 :
  forallb (fun s => ipv6_ok (lit s) && validate_ip (lit s))
    ["::"; "::1"; "1::"; "2001:db8::1"; "2001:DB8:0:0:8:800:200C:417A"; "fe80::1:2:3:4:5:6";
     "::ffff:192.0.2.128"; "64:ff9b::192.0.2.33"; "1:2:3:4:5:6:7:8"; "1:2:3:4:5:6:1.2.3.4"]%string = true /\
  forallb (fun s => negb (ipv6_ok (lit s)) && negb (validate_ip (lit s)))
    ["1:2:3:4:5:6:7:8:9"; "1:2:3:4:5:6:7::8"; "::1::"; "12345::"; "1:2:3:4:5:1.2.3.4"; "fe80::1%eth0"; ":1"; "1:";
     "::1.2.3"; "::01.2.3.4"; "g::"]%string = true /\
  validate_endpoint repaired (lit "[2001:db8::1]:65535") = true /\
  doc_endpoint (lit "[2001:db8::1]:65535") = true /\
  validate_endpoint as_found (lit "[2001:db8::1]:65535") = false.
Proof. vm_compute. repeat split; reflexivity. Qed.

Example ex_safe_is_needed :
  (* an accepted value, and the tokens of the mgmt.conf it produces *)
  validate_endpoint_optional_port repaired (lit "nim.example.com:443") = true /\
  lex (render_mgmt {| m_endpoint := lit "nim.example.com:443"; m_resolver := lit "10.0.0.10"; m_skip_verify := true;
                      m_ca := false; m_client := false |}) =
    Some [word "mgmt"; TOpen; word "usage_report"; word "endpoint=nim.example.com:443"; TSemi;
          word "resolver"; word "10.0.0.10"; TSemi;
          word "license_token"; word "/etc/nginx/secrets/license.jwt"; TSemi;
          word "deployment_context"; word "/etc/nginx/main-includes/deployment_ctx.json"; TSemi;
          word "ssl_verify"; word "off"; TSemi; TClose] /\
  (* a value that is not a safe token would add a directive: it is refused, and the theorem does not cover it *)
  validate_endpoint_optional_port repaired (lit "a.b; load_module /tmp/x.so") = false /\
  safe_token (lit "a.b; load_module /tmp/x.so") = false /\
  lex (render_mgmt {| m_endpoint := lit "a.b; load_module /tmp/x.so"; m_resolver := []; m_skip_verify := false;
                      m_ca := false; m_client := false |}) <>
    Some (mgmt_tokens (lit "a.b; load_module /tmp/x.so") [] false false false).
Proof. vm_compute. repeat split; try reflexivity. discriminate. Qed.

Definition ex_args (m h : option str) : static_args :=
  {| a_ctlr := Some (lit "gateway.nginx.org/nginx-gateway-controller"); a_class := Some (lit "nginx");
     a_gateway := Some (lit "nginx-gateway/gw"); a_config := Some (lit "ngf-config"); a_service := Some (lit "ngf");
     a_metrics_port := m; a_health_port := h; a_metrics_disable := false; a_health_disable := false; a_lock := None; a_plus := true; a_secret := None;
     a_endpoint := Some (lit "nim.example.com:443"); a_resolver := Some (lit "10.0.0.10:53");
     a_client_secret := None; a_ca_secret := Some (lit "nim-ca"); a_telemetry_endpoint := lit "oss.edge.df.f5.com:443" |}.

Example ex_static :
  stage_started (run_static repaired (ex_args None None)) = true /\
  stage_started (run_static repaired (ex_args (Some (lit "9000")) (Some (lit "9001")))) = true /\
  run_static repaired (ex_args (Some (lit "9000")) (Some (lit "9000"))) = RejectedByRun /\
  run_static repaired (ex_args (Some (lit "8081")) None) = RejectedByRun /\
  run_static repaired (ex_args (Some (lit "+9000")) (Some (lit "9000"))) = RejectedByRun /\
  run_static repaired (ex_args (Some (lit "1023")) None) = RejectedByFlags.
Proof. vm_compute. repeat split; reflexivity. Qed.
