// Runs the repository's httpmatches.js (unmodified, imported from the tree under test) on the cases of a JSON file:
//   node run.mjs <path to httpmatches.js> <cases.json> <results.json>
// Each case: { table: {key: [match, ...]}, key: string|null, method, headers: [[name, value]], args: [[key, value]] }.
// The request object r is a mock of the njs HTTP request: variables, method, headersIn with case-insensitive lookup,
// args as njs builds it (a key seen twice holds an array), error(), return(), internalRedirect().
import { readFileSync, writeFileSync } from 'node:fs';
import { pathToFileURL } from 'node:url';

const [, , modulePath, casesPath, resultsPath] = process.argv;
const hm = (await import(pathToFileURL(modulePath).href)).default;
const cases = JSON.parse(readFileSync(casesPath, 'utf8'));
const results = [];
for (const c of cases) {
	globalThis.matches = c.table;
	const headers = c.headers || [];
	const headersIn = new Proxy({}, {
		get: (_t, name) => {
			if (typeof name !== 'string') return undefined;
			const hit = headers.find((h) => h[0].toLowerCase() === name.toLowerCase());
			return hit ? hit[1] : undefined;
		},
	});
	const args = {};
	for (const [k, v] of c.args || []) {
		if (Object.prototype.hasOwnProperty.call(args, k)) {
			args[k] = Array.isArray(args[k]) ? [...args[k], v] : [args[k], v];
		} else {
			args[k] = v;
		}
	}
	let res = { kind: 'nothing' };
	const r = {
		variables: c.key === null ? {} : { match_key: c.key },
		method: c.method,
		headersIn,
		args,
		error() {},
		return(code) { res = { kind: 'status', code }; },
		internalRedirect(p) { res = { kind: 'redirect', path: p }; },
	};
	try {
		hm.redirect(r);
	} catch (e) {
		res = { kind: 'uncaught', message: String(e) };
	}
	results.push(res);
}
writeFileSync(resultsPath, JSON.stringify(results));
