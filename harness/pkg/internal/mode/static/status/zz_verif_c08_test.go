//go:build verif

package status

import (
	"context"
	"errors"
	"fmt"
	"reflect"
	"strings"
	"testing"
	"time"
	"unicode/utf8"

	"github.com/go-logr/logr"
	apierrors "k8s.io/apimachinery/pkg/api/errors"
	metav1 "k8s.io/apimachinery/pkg/apis/meta/v1"
	"k8s.io/apimachinery/pkg/runtime"
	"k8s.io/apimachinery/pkg/runtime/schema"
	"k8s.io/apimachinery/pkg/util/wait"
	"sigs.k8s.io/controller-runtime/pkg/client"
	"sigs.k8s.io/controller-runtime/pkg/client/fake"
	"sigs.k8s.io/controller-runtime/pkg/client/interceptor"
	v1 "sigs.k8s.io/gateway-api/apis/v1"
	"sigs.k8s.io/gateway-api/apis/v1alpha2"
	"sigs.k8s.io/gateway-api/apis/v1alpha3"

	ngfAPI "github.com/nginx/nginx-gateway-fabric/apis/v1alpha1"
	"github.com/nginx/nginx-gateway-fabric/internal/framework/conditions"
	"github.com/nginx/nginx-gateway-fabric/internal/framework/helpers"
	frameworkStatus "github.com/nginx/nginx-gateway-fabric/internal/framework/status"
	"github.com/nginx/nginx-gateway-fabric/internal/mode/static/nginx/config/policies"
	vu "github.com/nginx/nginx-gateway-fabric/internal/verifutil"
)

// C08, part 4: previous statuses, fault plans, the run of the real retry function, and the test.

const c08Steps = 4 // wait.Backoff{Steps} of Updater.writeStatuses; the probe case checks it on the real Updater

// ---------------------------------------------------------------- previous statuses as real API values

type c08GoEntry struct {
	Ctlr, Name               string
	Ns, Section, Group, Kind *string
	Port                     *int32
	Conds                    []metav1.Condition
}

func c08Ref(e c08GoEntry) v1.ParentReference {
	r := v1.ParentReference{Name: v1.ObjectName(e.Name)}
	if e.Ns != nil {
		r.Namespace = helpers.GetPointer(v1.Namespace(*e.Ns))
	}
	if e.Section != nil {
		r.SectionName = helpers.GetPointer(v1.SectionName(*e.Section))
	}
	if e.Group != nil {
		r.Group = helpers.GetPointer(v1.Group(*e.Group))
	}
	if e.Kind != nil {
		r.Kind = helpers.GetPointer(v1.Kind(*e.Kind))
	}
	if e.Port != nil {
		r.Port = helpers.GetPointer(v1.PortNumber(*e.Port))
	}
	return r
}

func c08SetEntries(obj client.Object, es []c08GoEntry) {
	parents := func() []v1.RouteParentStatus {
		out := make([]v1.RouteParentStatus, 0, len(es))
		for _, e := range es {
			out = append(out, v1.RouteParentStatus{
				ParentRef: c08Ref(e), ControllerName: v1.GatewayController(e.Ctlr), Conditions: e.Conds,
			})
		}
		return out
	}
	ancestors := func() []v1alpha2.PolicyAncestorStatus {
		out := make([]v1alpha2.PolicyAncestorStatus, 0, len(es))
		for _, e := range es {
			out = append(out, v1alpha2.PolicyAncestorStatus{
				AncestorRef: c08Ref(e), ControllerName: v1.GatewayController(e.Ctlr), Conditions: e.Conds,
			})
		}
		return out
	}
	switch o := obj.(type) {
	case *v1.HTTPRoute:
		o.Status.Parents = parents()
	case *v1.GRPCRoute:
		o.Status.Parents = parents()
	case *v1alpha2.TLSRoute:
		o.Status.Parents = parents()
	case *v1alpha3.BackendTLSPolicy:
		o.Status.Ancestors = ancestors()
	case *ngfAPI.SnippetsFilter:
		out := make([]ngfAPI.ControllerStatus, 0, len(es))
		for _, e := range es {
			out = append(out, ngfAPI.ControllerStatus{ControllerName: v1.GatewayController(e.Ctlr), Conditions: e.Conds})
		}
		o.Status.Controllers = out
	default:
		p, ok := obj.(policies.Policy)
		if !ok {
			panic(fmt.Sprintf("c08: %T has no entries", obj))
		}
		p.SetPolicyStatus(v1alpha2.PolicyStatus{Ancestors: ancestors()})
	}
}

func c08LastWins(cs []conditions.Condition) []conditions.Condition {
	var out []conditions.Condition
	for i, c := range cs {
		later := false
		for _, d := range cs[i+1:] {
			if d.Type == c.Type {
				later = true
			}
		}
		if !later {
			out = append(out, c)
		}
	}
	return out
}

// c08PrevMsgCap: a previous status is something the API server stored, so its messages are within the CRD
// limit; a longer computed message appears in it cut to a few runes below the limit.
const c08PrevMsgCap = 32768 - 7

func c08API(cs []conditions.Condition, gen int64, tt metav1.Time) []metav1.Condition {
	out := make([]metav1.Condition, 0, len(cs))
	for _, c := range c08LastWins(cs) {
		msg := c.Message
		if utf8.RuneCountInString(msg) > c08PrevMsgCap {
			msg = string([]rune(msg)[:c08PrevMsgCap])
		}
		out = append(out, metav1.Condition{
			Type: c.Type, Status: c.Status, Reason: c.Reason, Message: msg, ObservedGeneration: gen,
			LastTransitionTime: tt,
		})
	}
	return out
}

// ---------------------------------------------------------------- generators

type c08Gen struct {
	rng   *vu.Rng
	pools map[string][]string
	nmsg  int
	long  bool // allow one message longer than any CRD limit (class D16)
	size  int
}

var c08Fill = []string{"x", "validation failed: spec.rules[0].matches[0].path.value: Invalid value; ", "é", "日本"}

// foreignMsg: messages of other controllers' entries are always within the CRD limit (the API server stored them).
func (g *c08Gen) foreignMsg() string {
	long := g.long
	g.long = false
	m := g.msg()
	g.long = long
	return m
}

func (g *c08Gen) msg() string {
	g.nmsg++
	n := 0
	switch r := g.rng.Intn(100); {
	case r < 70:
		n = g.rng.Intn(60)
	case r < 92:
		n = 200 + g.rng.Intn(1000)
	default:
		n = 5000 + g.rng.Intn(15000)
	}
	if g.long {
		g.long = false
		n = 32769 + g.rng.Intn(40000)
		if g.rng.Chance(1, 4) {
			n = 32769 + g.rng.Intn(3)
		}
		if g.rng.Chance(1, 2) {
			// over the limit counted in CHARACTERS, with characters of several bytes at the head, at the tail or throughout
			// (the limit of the CRD counts characters, not bytes)
			chars := 32769 + g.rng.Intn(6000)
			if g.rng.Chance(1, 4) {
				chars = 32769 + g.rng.Intn(3)
			}
			wide := []string{"é", "日", "𝛑"}[g.rng.Intn(3)]
			split := g.rng.Intn(chars)
			shape := g.rng.Intn(3)
			var b strings.Builder
			fmt.Fprintf(&b, "m%d: ", g.nmsg)
			for i := utf8.RuneCountInString(b.String()); i < chars; i++ {
				switch {
				case shape == 0 && i >= split, shape == 1 && i < split, shape == 2 && i%3 != 0:
					b.WriteString(wide)
				default:
					b.WriteByte('x')
				}
			}
			return b.String()
		}
	}
	fill := c08Fill[0]
	if g.rng.Chance(1, 5) {
		fill = c08Fill[g.rng.Intn(len(c08Fill))]
	}
	var b strings.Builder
	fmt.Fprintf(&b, "m%d: ", g.nmsg)
	for b.Len() < n {
		b.WriteString(fill)
	}
	return b.String()
}

// conds draws up to max constructor results from a pool.
func (g *c08Gen) conds(pool string, max int) []conditions.Condition {
	var out []conditions.Condition
	names := g.pools[pool]
	for k := g.rng.Intn(max + 1); k > 0; k-- {
		f := c08Ctors[names[g.rng.Intn(len(names))]]
		m := ""
		if c08TakesMsg(f) {
			m = g.msg()
		}
		out = append(out, c08Call(f, m)...)
	}
	return out
}

func (g *c08Gen) oneCond(pool string) conditions.Condition {
	for {
		cs := g.conds(pool, 1)
		if len(cs) > 0 {
			return cs[0]
		}
	}
}

var (
	c08Ctls    = []string{"gateway.nginx.org/nginx-gateway-controller", "example.org/ngf", "gateway.nginx.org/nginx-gateway-controller"}
	c08Foreign = []string{"example.com/gateway", "istio.io/gateway-controller", "k8s.io/x", "gateway.nginx.org/nginx-gateway-controller-2"}
	c08Names   = []string{"gw", "gw2", "edge", "svc", "route-a"}
	c08Nss     = []string{"default", "ns1", "infra"}
	c08Secs    = []string{"http", "https", "l80"}
)

func c08P(s string) *string { return &s }

func (g *c08Gen) spec(kind int) *c08Spec {
	r := g.rng
	s := &c08Spec{
		Kind: kind, Ctl: c08Ctls[r.Intn(len(c08Ctls))], Gen: int64(1 + r.Intn(9)), Ns: c08Nss[r.Intn(len(c08Nss))],
		Name: "res", ReloadErr: r.Chance(1, 5),
	}
	switch kind {
	case c08HTTP, c08GRPC, c08TLS:
		n := r.Intn(2 + g.size)
		seen := map[string]bool{}
		for i := 0; i < n; i++ {
			p := c08ParentIn{GwNs: c08Nss[r.Intn(len(c08Nss))], GwName: c08Names[r.Intn(len(c08Names))], Attach: r.Intn(3)}
			if r.Bool() {
				p.Section = c08P(c08Secs[r.Intn(len(c08Secs))])
			}
			k := p.GwNs + "/" + p.GwName + "/" + fmt.Sprint(p.Section != nil)
			if p.Section != nil {
				k += *p.Section
			}
			if seen[k] {
				continue
			}
			seen[k] = true
			if p.Attach == 2 {
				p.Failed = g.oneCond("route")
			}
			s.Parents = append(s.Parents, p)
		}
		s.Conds = g.conds("route", 3)
	case c08BTP:
		s.GwNs, s.GwName = c08Nss[r.Intn(len(c08Nss))], c08Names[r.Intn(len(c08Names))]
		s.Conds = append(g.conds("policy", 2), g.oneCond("policy"))
	case c08NGF:
		s.Sub = r.Intn(3)
		n := 1 + r.Intn(1+g.size)
		seen := map[string]bool{}
		for i := 0; i < n; i++ {
			kd := []v1.Kind{"Gateway", "HTTPRoute", "GRPCRoute"}[r.Intn(3)]
			ref := v1.ParentReference{
				Group: helpers.GetPointer[v1.Group](v1.GroupName), Kind: helpers.GetPointer(kd),
				Namespace: helpers.GetPointer(v1.Namespace(s.Ns)), Name: v1.ObjectName(c08Names[r.Intn(len(c08Names))]),
			}
			k := string(kd) + "/" + string(ref.Name)
			if seen[k] {
				continue
			}
			seen[k] = true
			s.Ancs = append(s.Ancs, c08AncIn{Ref: ref, Conds: g.conds("policy", 1)})
		}
		s.Conds = g.conds("policy", 2)
	case c08SF:
		s.Conds = g.conds("sf", 2)
	case c08GC:
		s.Ignored = r.Chance(1, 4)
		s.Conds = g.conds("gc", 2)
	case c08NGW:
		if r.Bool() {
			s.CPErr = g.msg()
		}
	case c08GW:
		s.Ignored = r.Chance(1, 6)
		s.GwValid = r.Chance(3, 4)
		s.Conds = g.conds("gw", 2)
		if !s.GwValid && len(s.Conds) == 0 {
			s.Conds = []conditions.Condition{g.oneCond("gw")}
		}
		n := r.Intn(2 + g.size)
		for i := 0; i < n; i++ {
			// the graph always builds SupportedKinds with make(): never nil (a nil slice would be written as null)
			l := c08LstIn{
				Name: fmt.Sprintf("l%d", i), Valid: r.Chance(2, 3), NRoutes: r.Intn(4), NL4: r.Intn(2),
				Kinds: []v1.RouteGroupKind{},
			}
			if !l.Valid {
				l.Conds = append(g.conds("listener", 2), g.oneCond("listener"))
			}
			for _, kd := range []v1.Kind{"HTTPRoute", "GRPCRoute", "TLSRoute"} {
				if r.Bool() {
					k := v1.RouteGroupKind{Kind: kd}
					if r.Bool() {
						k.Group = helpers.GetPointer[v1.Group](v1.GroupName)
					}
					l.Kinds = append(l.Kinds, k)
				}
			}
			s.Lsts = append(s.Lsts, l)
		}
		for i := r.Intn(3); i > 0; i-- {
			a := v1.GatewayStatusAddress{Value: fmt.Sprintf("10.0.0.%d", r.Intn(5))}
			if r.Bool() {
				a.Type = helpers.GetPointer(v1.IPAddressType)
			}
			s.Addrs = append(s.Addrs, a)
		}
	}
	return s
}

var (
	c08FTypes   = []string{"Accepted", "ResolvedRefs", "Programmed", "example.com/Ready"}
	c08FReasons = []string{"Accepted", "Invalid", "Pending", "NoMatchingParent", "Foo_Bar:baz,qux1"}
)

func (g *c08Gen) foreignEntry(own []c08GoEntry, ctl string) c08GoEntry {
	r := g.rng
	e := c08GoEntry{Ctlr: c08Foreign[r.Intn(len(c08Foreign))], Name: c08Names[r.Intn(len(c08Names))]}
	if e.Ctlr == ctl {
		e.Ctlr = c08Foreign[0]
	}
	if len(own) > 0 && r.Chance(1, 3) { // same reference as one of ours, other controller
		o := own[r.Intn(len(own))]
		e.Name, e.Ns, e.Section, e.Group, e.Kind = o.Name, o.Ns, o.Section, o.Group, o.Kind
	} else {
		if r.Bool() {
			e.Ns = c08P(c08Nss[r.Intn(len(c08Nss))])
		}
		if r.Chance(1, 3) {
			e.Section = c08P(c08Secs[r.Intn(len(c08Secs))])
		}
		if r.Chance(1, 3) {
			e.Group = c08P([]string{v1.GroupName, "", "example.com"}[r.Intn(3)])
		}
		if r.Chance(1, 3) {
			e.Kind = c08P([]string{"Gateway", "Service", "HTTPRoute"}[r.Intn(3)])
		}
		if r.Chance(1, 4) {
			e.Port = helpers.GetPointer(int32(80 + r.Intn(3)))
		}
	}
	perm := []int{0, 1, 2, 3}
	r.Shuffle(4, func(i, j int) { perm[i], perm[j] = perm[j], perm[i] })
	for _, ti := range perm[:1+r.Intn(3)] {
		e.Conds = append(e.Conds, metav1.Condition{
			Type: c08FTypes[ti], Status: []metav1.ConditionStatus{"True", "False", "Unknown"}[r.Intn(3)],
			Reason: c08FReasons[r.Intn(len(c08FReasons))], Message: g.foreignMsg(), ObservedGeneration: int64(r.Intn(12)),
			LastTransitionTime: metav1.Unix(int64(1600000000+r.Intn(1000000)), 0),
		})
	}
	return e
}

func (g *c08Gen) perturbCond(cs []metav1.Condition) bool {
	if len(cs) == 0 {
		return false
	}
	c := &cs[g.rng.Intn(len(cs))]
	switch g.rng.Intn(4) {
	case 0:
		if c.Status == metav1.ConditionTrue {
			c.Status = metav1.ConditionFalse
		} else {
			c.Status = metav1.ConditionTrue
		}
	case 1:
		c.Message = g.foreignMsg()
	case 2:
		if c.ObservedGeneration > 0 {
			c.ObservedGeneration--
		} else {
			c.ObservedGeneration++
		}
	case 3:
		c.Reason = "Stale"
	}
	return true
}

func c08CopyEntries(es []c08GoEntry) []c08GoEntry {
	out := make([]c08GoEntry, len(es))
	for i, e := range es {
		out[i] = e
		out[i].Conds = append([]metav1.Condition(nil), e.Conds...)
	}
	return out
}

// ownPrev derives this controller's entries of a previous status from the expected ones.
func (g *c08Gen) ownPrev(exp []c08GoEntry, room int) ([]c08GoEntry, string) {
	r := g.rng
	own := c08CopyEntries(exp)
	mode := "same"
	switch x := r.Intn(100); {
	case x < 19:
	case x < 25:
		// a stale duplicate of one of our own entries (same reference, other conditions) BEFORE or AFTER the
		// up-to-date one, e.g. left behind by an earlier retried write
		if len(own) > 0 && room > 0 {
			i := r.Intn(len(own))
			st := c08CopyEntries(own[i : i+1])[0]
			if g.perturbCond(st.Conds) {
				if r.Chance(2, 3) {
					own = append(own[:i], append([]c08GoEntry{st}, own[i:]...)...)
					mode = "own-stale-duplicate-first"
				} else {
					own = append(own, st)
					mode = "own-stale-duplicate-last"
				}
			}
		}
	case x < 40:
		own, mode = nil, "none"
	case x < 65:
		mode = "cond-changed"
		if len(own) == 0 || !g.perturbCond(own[r.Intn(len(own))].Conds) {
			mode = "same"
		}
	case x < 73:
		if len(own) > 0 {
			i := r.Intn(len(own))
			own = append(own[:i], own[i+1:]...)
			mode = "entry-missing"
		}
	case x < 81:
		if room > 0 {
			st := c08GoEntry{Name: "old-gw", Conds: []metav1.Condition{{
				Type: "Accepted", Status: "True", Reason: "Accepted", Message: g.foreignMsg(), ObservedGeneration: 1,
				LastTransitionTime: metav1.Unix(1500000000, 0),
			}}}
			if len(exp) > 0 {
				st.Ctlr, st.Ns, st.Group, st.Kind = exp[0].Ctlr, exp[0].Ns, exp[0].Group, exp[0].Kind
				own = append(own, st)
				mode = "stale-extra"
			}
		}
	case x < 88:
		r.Shuffle(len(own), func(i, j int) { own[i], own[j] = own[j], own[i] })
		mode = "shuffled"
	case x < 92:
		if len(own) > 0 && room > 0 {
			own = append(own, c08CopyEntries(own[:1])...)
			own[len(own)-1].Conds[0].LastTransitionTime = metav1.Unix(1400000000, 0)
			mode = "own-duplicated"
		}
	case x < 96:
		// the same entry under a slightly different reference (section / namespace / kind)
		if len(own) > 0 {
			e := &own[r.Intn(len(own))]
			switch {
			case e.Section != nil:
				if r.Bool() {
					e.Section = nil
				} else {
					e.Section = c08P(*e.Section + "x")
				}
			case e.Kind != nil:
				e.Kind = c08P("Service")
			case e.Ns != nil:
				e.Ns = c08P(*e.Ns + "x")
			default:
				e.Name += "x"
			}
			if e.Name != "" || e.Ns != nil {
				mode = "reference-changed"
			}
		}
	default:
		if len(own) > 0 {
			cs := own[r.Intn(len(own))].Conds
			if len(cs) > 1 {
				for i, j := 0, len(cs)-1; i < j; i, j = i+1, j-1 {
					cs[i], cs[j] = cs[j], cs[i]
				}
				mode = "conds-reordered"
			}
		}
	}
	return own, mode
}

// ---------------------------------------------------------------- the run of one round

type c08Step struct {
	get   int // 0 ok, 1 error, 2 not found
	upd   int // 0 ok, 1 conflict, 2 other error
	serve client.Object
}

type c08AttRec struct {
	Get    string
	Served *c08Status `json:",omitempty"`
	Upd    string
}

type c08ObsRec struct {
	Submitted *c08Status `json:",omitempty"`
	CRDOk     bool
	CRDErrors []string `json:",omitempty"`
}

type c08RoundRec struct {
	Gen, Time int64
	Computed  c08Computed
	Attempts  []c08AttRec
	Observed  []c08ObsRec
}

type c08World struct {
	in       *c08Intern
	crds     *c08CRDs
	kv       string
	plan     []c08Step
	obs      []c08ObsRec
	current  client.Object // what the API server holds after the round
	rejected []int         // attempts whose Update the schema rejected
}

var c08GR = schema.GroupResource{Group: "g", Resource: "r"}

// c08APIErr: the failures of a Get or an Update other than not-found and conflict come in the kinds an API server answers with
// (the kind changes from one injected failure to the next; the run is sequential, so it is reproducible).
var c08ErrCount int

func c08APIErr(what string) error {
	c08ErrCount++
	switch c08ErrCount % 8 {
	case 1:
		return apierrors.NewInternalError(errors.New(what))
	case 2:
		return apierrors.NewTimeoutError(what, 1)
	case 3:
		return apierrors.NewServerTimeout(c08GR, "update", 1)
	case 4:
		return apierrors.NewTooManyRequests(what, 1)
	case 5:
		return apierrors.NewForbidden(c08GR, "res", errors.New(what))
	case 6:
		return apierrors.NewServiceUnavailable(what)
	case 7:
		return context.DeadlineExceeded
	}
	return errors.New(what)
}

func (w *c08World) Get(_ context.Context, _ client.ObjectKey, obj client.Object, _ ...client.GetOption) error {
	i := len(w.obs)
	if i >= len(w.plan) {
		panic("c08: more attempts than planned")
	}
	w.obs = append(w.obs, c08ObsRec{CRDOk: true})
	switch w.plan[i].get {
	case 1:
		return c08APIErr("c08: injected get failure")
	case 2:
		return apierrors.NewNotFound(c08GR, "res")
	}
	// like controller-runtime's cache reader: deep copy, then overwrite *obj
	reflect.ValueOf(obj).Elem().Set(reflect.ValueOf(w.plan[i].serve.DeepCopyObject()).Elem())
	return nil
}

func (w *c08World) Update(_ context.Context, obj client.Object, _ ...client.SubResourceUpdateOption) error {
	i := len(w.obs) - 1
	cp := obj.DeepCopyObject().(client.Object)
	st := w.in.project(cp)
	errs := w.crds.validate(w.kv, cp)
	w.obs[i] = c08ObsRec{Submitted: &st, CRDOk: len(errs) == 0, CRDErrors: errs}
	if len(errs) > 3 {
		w.obs[i].CRDErrors = errs[:3]
	}
	if len(errs) > 0 { // the API server does not store what its schema rejects, whatever the plan says
		w.rejected = append(w.rejected, i)
		return apierrors.NewBadRequest("c08: status rejected by the CRD schema: " + errs[0])
	}
	switch w.plan[i].upd {
	case 1:
		return apierrors.NewConflict(c08GR, "res", errors.New("c08: injected conflict"))
	case 2:
		return c08APIErr("c08: injected update failure")
	}
	w.current = cp
	return nil
}

func c08RunRound(in *c08Intern, crds *c08CRDs, s *c08Spec, tt metav1.Time, plan []c08Step) (c08RoundRec, client.Object) {
	exp := s.expected()
	rec := c08RoundRec{Gen: s.Gen, Time: tt.Unix(), Computed: s.computed(in, exp)}
	for _, st := range plan {
		a := c08AttRec{Get: []string{"ok", "error", "notfound"}[st.get], Upd: []string{"ok", "conflict", "error"}[st.upd]}
		if st.get == 0 {
			// what the API server serves is something it admitted: a generator slip must not look like a finding
			if errs := crds.validate(s.kindVersion(), st.serve); len(errs) > 0 {
				panic(fmt.Sprintf("c08: generated previous status is not admissible: %v", errs))
			}
			p := in.project(st.serve)
			a.Served = &p
		}
		rec.Attempts = append(rec.Attempts, a)
	}
	req := s.request(tt)
	w := &c08World{in: in, crds: crds, kv: s.kindVersion(), plan: plan}
	obj := req.ResourceType.DeepCopyObject().(client.Object) // as Updater.writeStatuses does
	fn := frameworkStatus.NewRetryUpdateFunc(w, w, req.NsName, obj, logr.Discard(), req.Setter)
	_ = wait.ExponentialBackoffWithContext(context.Background(),
		wait.Backoff{Duration: time.Microsecond, Factor: 1, Steps: c08Steps}, fn)
	rec.Observed = w.obs
	for _, i := range w.rejected {
		rec.Attempts[i].Upd = "rejected-by-schema"
	}
	return rec, w.current
}

// ---------------------------------------------------------------- terms

// c08Binder shares repeated status terms of one case through let-bindings (a status served unchanged at
// four attempts is parsed once).
type c08Binder struct {
	names map[string]string
	defs  []string
}

func (b *c08Binder) status(s c08Status) string {
	t := c08StatusT(s)
	if n, ok := b.names[t]; ok {
		return n
	}
	n := fmt.Sprintf("st%d", len(b.names))
	b.names[t] = n
	b.defs = append(b.defs, fmt.Sprintf("let %s := %s in ", n, t))
	return n
}

func c08RoundT(b *c08Binder, r c08RoundRec) string {
	atts := make([]string, len(r.Attempts))
	for i, a := range r.Attempts {
		g := "GetErr"
		switch a.Get {
		case "ok":
			g = vu.App("GetOK", b.status(*a.Served))
		case "notfound":
			g = "GetNotFound"
		}
		u := "UpdFail"
		if a.Upd == "ok" {
			u = "UpdOK"
		}
		atts[i] = vu.App("Att", g, u)
	}
	obs := make([]string, len(r.Observed))
	for i, o := range r.Observed {
		if o.Submitted == nil {
			obs[i] = "None"
		} else {
			obs[i] = vu.Some(vu.Pair(b.status(*o.Submitted), vu.Bool(o.CRDOk)))
		}
	}
	return vu.App("Round", vu.Z(r.Gen), vu.Z(r.Time), c08ComputedT(r.Computed), vu.List(atts), vu.List(obs))
}

func c08CaseT(kind int, ctl string, lim c08Limits, rounds []c08RoundRec) string {
	b := &c08Binder{names: map[string]string{}}
	rs := make([]string, len(rounds))
	for i, r := range rounds {
		rs[i] = c08RoundT(b, r)
	}
	l := vu.App("Lim", vu.Nat(lim.Entries), vu.Nat(lim.Conds), vu.N(uint64(lim.Msg)), vu.N(uint64(lim.Reason)),
		vu.Nat(lim.Lsts), vu.Nat(lim.Addrs), vu.Nat(lim.Kinds))
	return "(" + strings.Join(b.defs, "") + vu.App("Case", c08KindNames[kind], c08S(ctl), l, vu.Nat(c08Steps), vu.List(rs)) + ")"
}

// ---------------------------------------------------------------- one case

type c08Human struct {
	Kind    string
	Ctl     string
	Limits  c08Limits
	Spec    any
	Prev    string
	Plan    string
	Rounds  []c08RoundRec
	Comment string `json:",omitempty"`
}

func c08OldTime(r *vu.Rng) metav1.Time { return metav1.Unix(int64(1650000000+r.Intn(1000000)), 0) }

// expectedOwn: this controller's entries as the repaired code writes them (used to derive previous statuses).
func c08ExpectedOwn(s *c08Spec, tt metav1.Time) []c08GoEntry {
	var out []c08GoEntry
	for _, x := range s.expected().Entries {
		out = append(out, c08GoEntry{
			Ctlr: s.Ctl, Name: x.Name, Ns: x.Ns, Section: x.Section, Group: x.Group, Kind: x.Kind,
			Conds: c08API(x.Conds, s.Gen, tt),
		})
	}
	return out
}

func (g *c08Gen) prevWhole(s *c08Spec) (client.Object, string) {
	r := g.rng
	obj := s.newObject()
	exp := s.expected()
	tt := c08OldTime(r)
	conds := c08API(exp.Conds, s.Gen, tt)
	mode := "same"
	x := r.Intn(100)
	gwOnly := 101
	if s.Kind == c08GW && !s.Ignored && s.GwValid {
		gwOnly = 60 // a Gateway status has more to differ in: listeners, attached routes, kinds, addresses
	}
	switch {
	case x >= gwOnly:
	case x < 30:
	case x < 45:
		conds, mode = nil, "none"
	case x < 85:
		mode = "cond-changed"
		if !g.perturbCond(conds) {
			mode = "same"
		}
	default:
		if len(conds) > 1 {
			conds[0], conds[1] = conds[1], conds[0]
			mode = "conds-reordered"
		}
	}
	switch o := obj.(type) {
	case *v1.GatewayClass:
		o.Status.Conditions = conds
	case *ngfAPI.NginxGateway:
		o.Status.Conditions = conds
	case *v1.Gateway:
		o.Status.Conditions = conds
		if mode != "none" {
			o.Status.Addresses = append([]v1.GatewayStatusAddress(nil), exp.Addrs...)
			for _, l := range exp.Lsts {
				o.Status.Listeners = append(o.Status.Listeners, v1.ListenerStatus{
					Name: v1.SectionName(l.Name), AttachedRoutes: l.Attached, SupportedKinds: l.Kinds,
					Conditions: c08API(l.Conds, s.Gen, tt),
				})
			}
		}
		if x >= gwOnly {
			ls := o.Status.Listeners
			switch k := r.Intn(6); {
			case k == 0 && len(ls) > 0:
				ls[r.Intn(len(ls))].AttachedRoutes++
				mode = "attached-changed"
			case k == 1 && len(ls) > 0:
				o.Status.Listeners = ls[:len(ls)-1]
				mode = "listener-missing"
			case k == 2 && len(ls) > 0:
				if g.perturbCond(ls[r.Intn(len(ls))].Conditions) {
					mode = "listener-cond-changed"
				}
			case k == 3:
				o.Status.Addresses = append(o.Status.Addresses, v1.GatewayStatusAddress{Value: "10.9.9.9"})
				mode = "address-extra"
			case k == 4 && len(ls) > 0 && len(ls[0].SupportedKinds) > 0:
				ls[0].SupportedKinds = ls[0].SupportedKinds[1:]
				mode = "kinds-changed"
			case k == 5 && len(ls) > 0 && len(ls[0].SupportedKinds) > 0:
				ks := append([]v1.RouteGroupKind(nil), ls[0].SupportedKinds...)
				if ks[0].Group == nil {
					ks[0].Group = helpers.GetPointer[v1.Group](v1.GroupName)
				} else {
					ks[0].Group = nil
				}
				ls[0].SupportedKinds = ks
				mode = "kind-group-changed"
			}
		}
	}
	return obj, mode
}

// prev builds the object the API server serves at one attempt.
func (g *c08Gen) prev(s *c08Spec, lim c08Limits, foreign []c08GoEntry) (client.Object, string) {
	if !c08Merge(s.Kind) {
		return g.prevWhole(s)
	}
	exp := c08ExpectedOwn(s, c08OldTime(g.rng))
	own, mode := g.ownPrev(exp, lim.Entries-len(exp)-len(foreign))
	// a status that has been through the API server carries the CRD's defaults: the parentRef of a Route's parent
	// status gets group gateway.networking.k8s.io and kind Gateway when the writer left them out
	if s.Kind <= c08TLS && g.rng.Chance(1, 2) {
		for i := range own {
			if own[i].Group == nil {
				own[i].Group = c08P("gateway.networking.k8s.io")
			}
			if own[i].Kind == nil {
				own[i].Kind = c08P("Gateway")
			}
		}
		mode += "+server-defaults"
	}
	all := append(c08CopyEntries(foreign), own...)
	g.rng.Shuffle(len(all), func(i, j int) { all[i], all[j] = all[j], all[i] })
	obj := s.newObject()
	c08SetEntries(obj, all)
	return obj, mode
}

func (g *c08Gen) foreignSet(s *c08Spec, lim c08Limits) []c08GoEntry {
	if !c08Merge(s.Kind) {
		return nil
	}
	own := c08ExpectedOwn(s, metav1.Unix(0, 0))
	// precondition (see registry assumptions): foreign entries + computed entries (+1 stale) fit the CRD limit
	room := lim.Entries - len(own) - 1
	n := g.rng.Intn(3 + g.size)
	if g.rng.Chance(1, 12) {
		n = room
	}
	if n > room {
		n = room
	}
	var out []c08GoEntry
	for i := 0; i < n; i++ {
		out = append(out, g.foreignEntry(own, s.Ctl))
	}
	return out
}

func c08PlanString(plan []c08Step) string {
	var b strings.Builder
	for _, p := range plan {
		switch {
		case p.get == 1:
			b.WriteString("E")
		case p.get == 2:
			b.WriteString("N")
		case p.upd == 1:
			b.WriteString("C")
		case p.upd == 2:
			b.WriteString("F")
		default:
			b.WriteString("o")
		}
	}
	return b.String()
}

// emit runs round 1 under the plan and a fault-free round 2 with a later transition time, and records the case.
func c08Emit(out *vu.Out, g *c08Gen, crds *c08CRDs, s *c08Spec, plan []c08Step, prevMode, comment string, second int) {
	in := newC08Intern()
	lim := crds.limits(s.kindVersion(), c08EntriesField[s.Kind])
	tt1 := metav1.Unix(1700000000+int64(g.rng.Intn(100000)), 0)
	var rounds []c08RoundRec
	r1, cur := c08RunRound(in, crds, s, tt1, plan)
	rounds = append(rounds, r1)
	if cur == nil { // nothing was written: the server still holds what it served last
		for i := len(plan) - 1; i >= 0 && cur == nil; i-- {
			if plan[i].get == 0 && i < len(r1.Observed) {
				cur = plan[i].serve
			}
		}
	}
	if second > 0 && cur != nil {
		s2 := *s
		if second == 2 {
			s2.Gen++
		}
		p2 := make([]c08Step, c08Steps)
		for i := range p2 {
			p2[i] = c08Step{serve: cur}
		}
		r2, _ := c08RunRound(in, crds, &s2, metav1.Unix(tt1.Unix()+1000, 0), p2)
		rounds = append(rounds, r2)
	}
	term := c08CaseT(s.Kind, s.Ctl, lim, rounds)
	nattempts, nsub, nforeign := len(r1.Observed), 0, 0
	for _, o := range r1.Observed {
		if o.Submitted != nil {
			nsub++
		}
	}
	for _, a := range r1.Attempts {
		if a.Served != nil {
			for _, e := range a.Served.Entries {
				if e.Ctlr != s.Ctl {
					nforeign++
				}
			}
		}
	}
	out.Tally("kind", c08KindNames[s.Kind])
	out.Tally("plan", c08PlanString(plan))
	out.Tally("previous_status", prevMode)
	out.Tally("attempts_performed", fmt.Sprint(nattempts))
	out.Tally("updates_submitted_round1", fmt.Sprint(nsub))
	out.Tally("rounds", fmt.Sprint(len(rounds)))
	fb := "0"
	if nforeign > 0 {
		fb = "1+"
	}
	if nforeign > 8 {
		fb = "9+"
	}
	out.Tally("foreign_entries_served", fb)
	nontrivial := nattempts >= 2 && (nforeign > 0 || (!c08Merge(s.Kind) && prevMode != "none"))
	out.Case(term, c08Human{
		Kind: c08KindNames[s.Kind], Ctl: s.Ctl, Limits: lim, Spec: s, Prev: prevMode, Plan: c08PlanString(plan),
		Rounds: rounds, Comment: comment,
	}, nontrivial, term)
}

// ---------------------------------------------------------------- fixed cases

func c08WitnessD15(out *vu.Out, g *c08Gen, crds *c08CRDs) {
	s := &c08Spec{
		Kind: c08HTTP, Ctl: c08Ctls[0], Gen: 2, Ns: "default", Name: "res",
		Parents: []c08ParentIn{{GwNs: "default", GwName: "gw", Attach: 1}},
	}
	obj := s.newObject()
	c08SetEntries(obj, []c08GoEntry{{
		Ctlr: "example.com/gateway", Name: "other-gw", Ns: c08P("default"),
		Conds: []metav1.Condition{{
			Type: "Accepted", Status: "True", Reason: "Accepted", Message: "accepted by the other controller",
			ObservedGeneration: 2, LastTransitionTime: metav1.Unix(1690000000, 0),
		}},
	}})
	plan := []c08Step{{upd: 1, serve: obj}, {serve: obj}, {serve: obj}, {serve: obj}}
	c08Emit(out, g, crds, s, plan, "foreign-only", "D15 witness: get ok, update conflict, retry", 1)
}

func c08WitnessD16(out *vu.Out, g *c08Gen, crds *c08CRDs) {
	s := &c08Spec{
		Kind: c08HTTP, Ctl: c08Ctls[0], Gen: 1, Ns: "default", Name: "res",
		Parents: []c08ParentIn{{GwNs: "default", GwName: "gw", Attach: 1}},
	}
	var b strings.Builder
	for i := 0; b.Len() <= 40000; i++ {
		fmt.Fprintf(&b, "spec.rules[%d].matches[0].path.value: Invalid value: \"/%s\": must not contain ';'; ", i,
			strings.Repeat("a;", 150))
	}
	s.Conds = c08Call(c08Ctors["NewRouteUnsupportedValue"], b.String())
	obj := s.newObject()
	plan := []c08Step{{serve: obj}, {serve: obj}, {serve: obj}, {serve: obj}}
	c08Emit(out, g, crds, s, plan, "none", "D16 witness: the joined validation errors exceed the CRD's message limit", 1)
}

// c08Probe drives the real Updater (real back-off: takes a second or two) against a client whose reads fail,
// to observe the number of attempts the production constants allow.
func c08Probe(out *vu.Out, crds *c08CRDs) {
	scheme := runtime.NewScheme()
	if err := v1.Install(scheme); err != nil {
		panic(err)
	}
	gets := 0
	k8s := fake.NewClientBuilder().WithScheme(scheme).WithInterceptorFuncs(interceptor.Funcs{
		Get: func(context.Context, client.WithWatch, client.ObjectKey, client.Object, ...client.GetOption) error {
			gets++
			return c08APIErr("c08: injected get failure")
		},
	}).Build()
	s := &c08Spec{
		Kind: c08HTTP, Ctl: c08Ctls[0], Gen: 1, Ns: "default", Name: "res",
		Parents: []c08ParentIn{{GwNs: "default", GwName: "gw", Attach: 1}},
	}
	in := newC08Intern()
	tt := metav1.Unix(1700000000, 0)
	frameworkStatus.NewUpdater(k8s, logr.Discard()).Update(context.Background(), s.request(tt))
	rec := c08RoundRec{Gen: s.Gen, Time: tt.Unix(), Computed: s.computed(in, s.expected())}
	for i := 0; i < c08Steps+2; i++ {
		rec.Attempts = append(rec.Attempts, c08AttRec{Get: "error", Upd: "ok"})
	}
	for i := 0; i < gets; i++ {
		rec.Observed = append(rec.Observed, c08ObsRec{CRDOk: true})
	}
	lim := crds.limits(s.kindVersion(), "parents")
	term := c08CaseT(s.Kind, s.Ctl, lim, []c08RoundRec{rec})
	out.Tally("kind", "probe-real-Updater")
	out.Case(term, c08Human{
		Kind: "KHTTPRoute", Ctl: s.Ctl, Limits: lim, Spec: s, Plan: "EEEEEE", Rounds: []c08RoundRec{rec},
		Comment: fmt.Sprintf("real Updater.Update with every Get failing: %d attempts observed", gets),
	}, false, term)
}

// ---------------------------------------------------------------- the test

func TestVerifC08(t *testing.T) {
	out := vu.Open("C08")
	rng := vu.NewRng(out.Seed ^ 0xC08C08C08)
	crds := c08LoadCRDs()
	pools := c08Pools()
	missing, extra := c08CtorsComplete(c08RepoRoot())
	out.Extra("condition_constructors_called", len(c08Ctors))
	out.Extra("condition_constructors_not_in_table", missing)
	out.Extra("condition_constructors_gone", extra)
	if len(missing) > 0 {
		t.Logf("c08: condition constructors not exercised (add them to c08Ctors): %v", missing)
	}

	g0 := &c08Gen{rng: rng.Fork(), pools: pools}
	c08WitnessD15(out, g0, crds)
	c08WitnessD16(out, g0, crds)
	c08Probe(out, crds)

	// every constructor's output goes through one plain write (reason / type / count limits of all 60)
	for _, pool := range []struct {
		name string
		kind int
	}{{"route", c08HTTP}, {"policy", c08BTP}, {"sf", c08SF}, {"gc", c08GC}, {"gw", c08GW}, {"listener", c08GW}} {
		for _, n := range pools[pool.name] {
			g := &c08Gen{rng: rng.Fork(), pools: pools}
			s := g.spec(pool.kind)
			s.Ignored, s.GwValid = false, true
			cs := c08Call(c08Ctors[n], g.msg())
			if pool.name == "listener" {
				s.Lsts = []c08LstIn{{Name: "l0", Valid: false, Conds: cs, Kinds: []v1.RouteGroupKind{}}}
			} else {
				s.Conds = cs
				if pool.name == "gw" {
					s.GwValid = false
				}
			}
			obj := s.newObject()
			plan := []c08Step{{serve: obj}, {serve: obj}, {serve: obj}, {serve: obj}}
			c08Emit(out, g, crds, s, plan, "none", "constructor "+n, 0)
		}
	}

	n := out.Count(700, 4000)
	for i := 0; i < n; i++ {
		g := &c08Gen{rng: rng.Fork(), pools: pools, size: i * 6 / n}
		if out.Thorough() && i%40 == 39 {
			g.size = 12 + g.rng.Intn(12)
		}
		g.long = g.rng.Chance(1, 20)
		kind := i % c08NKinds
		if g.rng.Chance(1, 3) { // merging kinds are where the interesting behaviour is
			kind = g.rng.Intn(c08SF + 1)
		}
		s := g.spec(kind)
		lim := crds.limits(s.kindVersion(), c08EntriesField[s.Kind])
		foreign := g.foreignSet(s, lim)
		plan := make([]c08Step, c08Steps)
		modes := ""
		var base client.Object
		for a := range plan {
			// the first 256 cases enumerate every plan over {ok, get error, update conflict, not found}
			var code int
			if i < 256 {
				code = (i >> (2 * uint(a))) & 3
			} else {
				code = []int{0, 0, 0, 1, 2, 2, 2, 4, 3}[g.rng.Intn(9)]
			}
			switch code {
			case 1:
				plan[a].get = 1
			case 2:
				plan[a].upd = 1
			case 3:
				plan[a].get = 2
			case 4:
				plan[a].upd = 2
			}
			// what the server holds at this attempt: usually unchanged; after a conflict often changed by someone else
			switch x := g.rng.Intn(10); {
			case base == nil || x < 2:
				var m string
				if a > 0 && g.rng.Bool() && len(foreign) > 0 { // a foreign controller wrote in between
					foreign = c08CopyEntries(foreign)
					if g.rng.Bool() {
						foreign = foreign[1:]
					} else {
						g.perturbCond(foreign[0].Conds)
					}
				}
				base, m = g.prev(s, lim, foreign)
				modes += m + " "
			}
			plan[a].serve = base
		}
		second := []int{0, 1, 1, 1, 2}[g.rng.Intn(5)]
		c08Emit(out, g, crds, s, plan, strings.TrimSpace(modes), "", second)
	}
	out.Close("C08.Check", c08Preamble())
}
