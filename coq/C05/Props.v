(* C05 — property theorems.  PARTIAL by nature: explicit panic sites and constant-index expressions are
   accounted for one by one against the regenerated inventory; implicit nil dereferences are covered only
   by the crash-finding harness. *)
From Coq Require Import List String Bool.
From NGF Require Import lib.Str k8s.State k8s.Spec C05.Model C05.Proofs C05.Sites.
Import ListNotations.

(* The "no listener found for hostname" panic of buildServers is unreachable for every sequence of
   routes and accepted hostnames. *)
Theorem C05_build_servers_never_panics : forall routes, build_servers_panics (hpr_run routes) = false.
Proof. exact build_servers_never_panics. Qed.

(* Once the Namespace of every Route is known, the namespace-selector crash class (finding D2, repaired)
   is empty. *)
Theorem C05_no_namespace_crash_when_namespaces_known :
  forall cs, (forall r, In r (c_routes cs) -> existsb (fun n => seqb (n_name n) (rt_ns r)) (c_namespaces cs) = true) ->
  class_D2 cs = false.
Proof. exact no_D2_when_namespaces_known. Qed.

(* Every explicit panic and constant-index expression in the anchored files of the working tree
   (gen/Inventory.v, regenerated) has been classified, and no classified site has disappeared. *)
Theorem C05_inventory_accounted_for : inventory_ok = true.
Proof. exact inventory_accounted_for. Qed.

Theorem C05_site_table_is_current : table_fresh = true.
Proof. exact table_has_no_stale_entry. Qed.
