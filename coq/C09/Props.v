(* C09 — property theorems only.  Only the leader writes status; the newest status survives a
   leadership change.  Quantifiers: every sequence of submissions before and after the single
   Enable, every iteration order [pi] of the saved-requests map. *)
From Coq Require Import List Permutation String.
From NGF Require Import C09.Model C09.Proofs C09.Wire C09.WireProofs.
Import ListNotations.

(* A replica that never becomes leader never writes. *)
Theorem C09_not_leader_never_writes :
  forall pi ops, all_updates ops -> forall w, In w (snd (run pi init ops)) -> w = [].
Proof. exact never_leader_never_writes. Qed.

(* On acquiring leadership exactly the latest non-empty submission of every group is written
   (groups in some order), nothing before, and every later submission immediately and in order. *)
Theorem C09_leader_history :
  forall pi, (forall l, Permutation (pi l) l) ->
  forall ops1 ops2, all_updates ops1 -> all_updates ops2 ->
  exists l,
    NoDup (map fst l) /\ (forall g rs, In (g, rs) l <-> owed ops1 g rs) /\
    snd (run pi init (ops1 ++ Enable :: ops2)) =
      map (fun _ => []) ops1 ++ flush_out l :: map update_out ops2.
Proof. exact leader_history. Qed.

(* ---------------------------------------------------------------- the wiring (Wire.v)

   [w] is what the harness reads off internal/mode/static/manager.go (every mgr.Add with the chain of
   runnable types, measured on the real objects; which identifier the handler gets as statusUpdater and
   where it comes from).  [check_case (Real w) = []] is literally what bin/check evaluates on it: the
   model of package runnables agrees with the measurements (code 1 absent) and the oracle holds (code 2
   absent).  Quantifiers: every such wiring, every sequence of manager events Start / Elected, every
   interleaving of these events with UpdateGroup submissions, every iteration order [pi]. *)

(* Enable of the handler's status updater is invoked only by an event that leaves the replica elected. *)
Theorem C09_wiring_enable_only_when_elected :
  forall w, check_case (Real w) = [] ->
  forall tr s inv, In (s, inv) (mrun w minit tr) -> In (enable_of w) inv -> m_elected s = true.
Proof. exact wiring_enable_only_when_elected. Qed.

(* ... and it is invoked: the first election after Start calls it (so the saved statuses are flushed,
   C09_leader_history). *)
Theorem C09_wiring_enable_on_election :
  forall w, check_case (Real w) = [] ->
  forall tr, ~ In MElected tr -> In MStart tr ->
  In (enable_of w) (snd (mstep w (mfinal w minit tr) MElected)) /\
  m_elected (fst (mstep w (mfinal w minit tr) MElected)) = true.
Proof. exact wiring_enable_on_election. Qed.

(* Wiring composed with the LeaderAwareGroupUpdater model: a replica that is never elected performs no
   status write, whatever it submits and however often Start is delivered. *)
Theorem C09_wiring_not_elected_never_writes :
  forall w, check_case (Real w) = [] ->
  forall pi evs, never_elected evs -> forall x, In x (sys_writes pi w evs) -> x = nil.
Proof. exact wiring_not_elected_never_writes. Qed.

(* The variants the oracle must reject do violate the two statements above in the model:
   Enable wrapped in LeaderOrNonLeader is invoked by Start on a replica that is not elected and then
   writes; a handler given the plain Updater writes without being elected. *)
Theorem C09_wiring_wrapped_refuted :
  corr wrapped_wiring = true /\ oracle wrapped_wiring = false /\ check_case (Real wrapped_wiring) = [2] /\
  (exists tr s inv, In (s, inv) (mrun wrapped_wiring minit tr) /\
                    In (enable_of wrapped_wiring) inv /\ m_elected s = false) /\
  (exists evs, never_elected evs /\
               exists x, In x (sys_writes (fun l => l) wrapped_wiring evs) /\ x <> nil).
Proof. exact wrapped_wiring_refuted. Qed.

Theorem C09_wiring_raw_updater_refuted :
  corr raw_wiring = true /\ oracle raw_wiring = false /\ check_case (Real raw_wiring) = [2] /\
  (exists evs, never_elected evs /\
               exists x, In x (sys_writes (fun l => l) raw_wiring evs) /\ x <> nil).
Proof. exact raw_wiring_refuted. Qed.
