(* Correspondence and oracle for the selection of parentRefs: the REAL buildSectionNameRefs on generated parentRefs (kinds and
   groups absent / Gateway / something else, namespaces absent / the Route's / others, names of our Gateways and look-alikes,
   sections, repeated pairs). Code 1: differs from the model. Code 2 (oracle on the observed result alone): a reference was kept
   whose parentRef does not name one of the Gateways handed in (wrong kind, group, namespace or name). *)
From Coq Require Import List String Bool Arith.
From NGF Require Export lib.CaseLib lib.Str C17.Parent.
Import ListNotations.

Record case := RCase {
  rc_refs : list pref; rc_route_ns : string; rc_gateways : list gwname;
  rc_observed : option (list (nat * gwname * option string))      (* None: the function returned an error *)
}.

Definition opt_s_eqb (a b : option string) : bool :=
  match a, b with None, None => true | Some x, Some y => seqb x y | _, _ => false end.
Definition entry_eqb (a b : nat * gwname * option string) : bool :=
  let '(i, g, s) := a in let '(j, h, t) := b in
  Nat.eqb i j && seqb (fst g) (fst h) && seqb (snd g) (snd h) && opt_s_eqb s t.
Fixpoint entries_eqb (a b : list (nat * gwname * option string)) : bool :=
  match a, b with
  | [], [] => true
  | x :: a', y :: b' => entry_eqb x y && entries_eqb a' b'
  | _, _ => false
  end.

Definition names_ours (c : case) (e : nat * gwname * option string) : bool :=
  let '(i, g, _) := e in
  match nth_error (rc_refs c) i with
  | None => false
  | Some p =>
      existsb (fun h => seqb (fst h) (fst g) && seqb (snd h) (snd g)) (rc_gateways c) &&
      match pf_kind p with Some k => seqb k "Gateway" | None => true end &&
      match pf_group p with Some gr => seqb gr "gateway.networking.k8s.io" | None => true end &&
      seqb (snd g) (pf_name p) && seqb (fst g) (match pf_ns p with Some n => n | None => rc_route_ns c end)
  end.

Definition check_case (c : case) : list nat :=
  (match section_refs (rc_refs c) (rc_route_ns c) (rc_gateways c), rc_observed c with
   | None, None => []
   | Some a, Some b => if entries_eqb a b then [] else [code_mismatch]
   | _, _ => [code_mismatch]
   end) ++
  (match rc_observed c with
   | Some out => if forallb (names_ours c) out then [] else [code_violation]
   | None => []
   end).
