(* C16 — property theorems (on the specification side: k8s/Spec.v is what the C16 check compares the generated servers with). *)
From Coq Require Import List String ZArith Bool.
From NGF Require Import lib.Str k8s.State k8s.Spec C16.SecretProofs C16.PolMatch C16.PolMatchProofs.
Import ListNotations.

(* A backend whose BackendTLSPolicy is invalid (missing CA ConfigMap, ...) is never in effect. *)
Theorem C16_invalid_policy_backend_not_served :
  forall cs r b p,
  btp_for cs (match b_ns b with Some n => n | None => rt_ns r end) (b_name b) = Some p ->
  btp_valid cs p = false -> backend_valid cs r b = false.
Proof.
  intros cs r b p Hf Hv. unfold backend_valid. rewrite Hf, Hv. apply andb_false_r.
Qed.

(* A backend that is not in effect contributes no TLS settings. *)
Theorem C16_no_tls_from_invalid_backend :
  forall cs r b, backend_valid cs r b = false -> backend_tls cs r b = None.
Proof. intros cs r b H. unfold backend_tls. rewrite H. reflexivity. Qed.

(* The certificate prescribed for a TLS request belongs to a valid listener of the winning Gateway on the request's port; for an
   HTTPS listener its Secret exists, is a usable key pair, and is in the Gateway's namespace or permitted by a ReferenceGrant. *)
Theorem C16_presented_certificate_is_usable_and_permitted : forall cs q ns name amb,
  expected_secret cs q = Some (ns, name, amb) ->
  exists g l cr,
    winning_gateway cs = Some g /\ In l (g_listeners g) /\ (l_port l =? q_port q)%Z = true /\
    listener_valid cs g l = true /\ l_cert l = Some cr /\
    ns = (match cr_ns cr with Some n => n | None => g_ns g end) /\ name = cr_name cr /\
    (l_proto l = PHTTPS ->
       (seqb ns (g_ns g) || ref_permitted cs ns "Secret" name "Gateway" (g_ns g)) = true /\
       existsb (fun s => seqb (sec_ns s) ns && seqb (sec_name s) name && sec_ok s) (c_secrets cs) = true).
Proof. exact expected_secret_sound. Qed.

(* An HTTPS listener whose Secret is missing, unusable or not permitted is not valid (and so serves no certificate). *)
Theorem C16_unusable_secret_invalidates_listener : forall cs g l,
  l_proto l = PHTTPS -> cert_ok cs g l = false -> listener_valid cs g l = false.
Proof. exact unusable_secret_invalidates_listener. Qed.

(* ---- "a rule whose backends disagree on TLS policy serves none of them" (model of validateBackendTLSPolicyMatchingAllBackends,
   C16/PolMatch.v, compared with the real function on every run). [bmeaning]: the ConfigMaps (namespace of the policy, reference), the
   well-known setting and the hostname a backend's policy stands for, or none. *)

(* a rule that is not rejected has backends that all mean the same verification, for every list of backends *)
Theorem C16_accepted_rule_backends_agree_on_verification :
  forall bs, mismatch bs = false -> forall b1 b2, In b1 bs -> In b2 bs -> bmeaning b1 = bmeaning b2.
Proof. exact no_mismatch_all_agree. Qed.

(* the single set of proxy_ssl directives of the location, taken from the first backend that has a policy, is that of every backend *)
Theorem C16_location_verification_is_every_backends :
  forall bs, mismatch bs = false -> forall b, In b bs -> bmeaning b = option_map meaning (first_policy bs).
Proof. exact location_settings_are_every_backends. Qed.

(* nothing is rejected needlessly: backends whose policies are written alike in one namespace pass, and so do backends without any *)
Theorem C16_alike_policies_are_not_rejected :
  forall q bs,
  (forall b, In b bs -> exists p, b = Some p /\ tp_ns p = tp_ns q /\ tp_refs p = tp_refs q /\
                                  tp_wellknown p = tp_wellknown q /\ tp_host p = tp_host q) ->
  mismatch (Some q :: bs) = false.
Proof. exact alike_policies_pass. Qed.

(* comparing the CA references as written, as the code did before the repair of D43, equates policies that verify against different
   ConfigMaps *)
Theorem C16_comparison_of_references_as_written_refuted :
  exists p q, differ_as_written p q = false /\ meaning p <> meaning q.
Proof. exact as_written_comparison_refuted. Qed.
